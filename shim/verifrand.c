/* getrandom() seam: makes std's RandomState (HashMap iteration order) a pure function of
 * VERIF_HASH_SEED in a single-threaded worker. See DESIGN.md 3.2. */
#define _GNU_SOURCE
#include <stddef.h>
#include <stdint.h>
#include <stdlib.h>
#include <sys/types.h>
static uint64_t ctr = 0;
static uint64_t sm(uint64_t *s){ uint64_t z=(*s+=0x9e3779b97f4a7c15ULL); z=(z^(z>>30))*0xbf58476d1ce4e5b9ULL; z=(z^(z>>27))*0x94d049bb133111ebULL; return z^(z>>31);}
ssize_t getrandom(void *buf, size_t len, unsigned int flags){
  (void)flags;
  const char *e = getenv("VERIF_HASH_SEED"); uint64_t s = e ? strtoull(e,0,10) : 0; s += (ctr++)*0x1234567ULL;
  unsigned char *b = buf; for(size_t i=0;i<len;i++){ if(i%8==0) { uint64_t v=sm(&s); for(int j=0;j<8&&i+j<len;j++) b[i+j]=(v>>(8*j))&0xff; } }
  return (ssize_t)len;
}
