/* getrandom() seam: makes std's RandomState (HashMap iteration order) a pure function of
 * VERIF_HASH_SEED. The simulator sets VERIF_HASH_SEED to a value derived from (VERIF_SEED, history
 * index, salt) and then runs the history on a fresh thread, whose first HashMap draws its keys here.
 * The call counter restarts whenever the seed string changes, so the keys depend on the history
 * only, not on the worker process or on what ran before. See DESIGN.md 3.2. */
#define _GNU_SOURCE
#include <stddef.h>
#include <stdint.h>
#include <stdlib.h>
#include <string.h>
#include <sys/types.h>
static uint64_t ctr = 0;
static char last[64] = "";
static uint64_t sm(uint64_t *s){ uint64_t z=(*s+=0x9e3779b97f4a7c15ULL); z=(z^(z>>30))*0xbf58476d1ce4e5b9ULL; z=(z^(z>>27))*0x94d049bb133111ebULL; return z^(z>>31);}
ssize_t getrandom(void *buf, size_t len, unsigned int flags){
  (void)flags;
  const char *e = getenv("VERIF_HASH_SEED");
  if (!e) e = "0";
  if (strncmp(e, last, sizeof(last)-1) != 0) { strncpy(last, e, sizeof(last)-1); last[sizeof(last)-1]=0; ctr = 0; }
  uint64_t s = strtoull(e,0,10); s += (ctr++)*0x1234567ULL;
  unsigned char *b = buf; for(size_t i=0;i<len;i++){ if(i%8==0) { uint64_t v=sm(&s); for(int j=0;j<8&&i+j<len;j++) b[i+j]=(v>>(8*j))&0xff; } }
  return (ssize_t)len;
}
