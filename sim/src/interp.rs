//! The seam to the system under test: `air::execute_air` called natively, plus decoding helpers.
//! Everything hash-ordered coming out of the interpreter is sorted here before anything else sees it.

use air_interpreter_data::{InterpreterData, InterpreterDataEnvelope};
use air_interpreter_interface::*;
use air_interpreter_sede::{FromSerialized, ToSerialized};
use rand_chacha::rand_core::SeedableRng;
use serde::{Deserialize, Serialize};
use serde_json::Value;
use std::alloc::{GlobalAlloc, Layout, System};
use std::cell::RefCell;
use std::collections::BTreeMap;
use std::sync::atomic::{AtomicUsize, Ordering};

// ---------- counting allocator (peak live heap per invocation) ----------
pub struct CountingAlloc;
static LIVE: AtomicUsize = AtomicUsize::new(0);
static PEAK: AtomicUsize = AtomicUsize::new(0);
unsafe impl GlobalAlloc for CountingAlloc {
    unsafe fn alloc(&self, l: Layout) -> *mut u8 {
        let p = System.alloc(l);
        if !p.is_null() {
            let v = LIVE.fetch_add(l.size(), Ordering::Relaxed) + l.size();
            PEAK.fetch_max(v, Ordering::Relaxed);
        }
        p
    }
    unsafe fn dealloc(&self, p: *mut u8, l: Layout) {
        System.dealloc(p, l);
        LIVE.fetch_sub(l.size(), Ordering::Relaxed);
    }
    unsafe fn realloc(&self, p: *mut u8, l: Layout, new: usize) -> *mut u8 {
        let q = System.realloc(p, l, new);
        if !q.is_null() {
            if new >= l.size() {
                let v = LIVE.fetch_add(new - l.size(), Ordering::Relaxed) + (new - l.size());
                PEAK.fetch_max(v, Ordering::Relaxed);
            } else {
                LIVE.fetch_sub(l.size() - new, Ordering::Relaxed);
            }
        }
        q
    }
}
pub fn heap_mark() -> usize {
    let live = LIVE.load(Ordering::Relaxed);
    PEAK.store(live, Ordering::Relaxed);
    live
}
pub fn heap_peak_since(mark: usize) -> usize {
    PEAK.load(Ordering::Relaxed).saturating_sub(mark)
}

// ---------- keys ----------
pub struct Keys {
    pub kp: fluence_keypair::KeyPair,
    pub id: String,
    pub secret: Vec<u8>,
    pub format: u8,
}
pub fn make_keys(seed: &str) -> Keys {
    use sha2::{Digest, Sha256};
    let mut h = Sha256::new();
    h.update(seed.as_bytes());
    let mut rng = rand_chacha::ChaCha8Rng::from_seed(h.finalize().into());
    let k = ed25519_dalek::SigningKey::generate(&mut rng);
    let kp = fluence_keypair::KeyPair::Ed25519(k.into());
    let id = kp.public().to_peer_id().to_string();
    let secret = kp.secret().unwrap();
    let format = kp.key_format().into();
    Keys { kp, id, secret, format }
}

// ---------- run parameters that vary ----------
#[derive(Clone, Debug, Serialize, Deserialize, PartialEq)]
pub struct Limits {
    pub air: u64,
    pub particle: u64,
    pub call_result: u64,
    pub hard: bool,
}
impl Default for Limits {
    fn default() -> Self {
        Limits { air: u64::MAX, particle: u64::MAX, call_result: u64::MAX, hard: false }
    }
}

#[derive(Clone, Debug, Serialize, Deserialize, PartialEq, Eq, PartialOrd, Ord)]
pub struct Tet {
    pub peer: String,
    pub service: String,
    pub function: String,
    pub lens: String,
}
#[derive(Clone, Debug, Serialize, Deserialize, PartialEq)]
pub struct Req {
    pub service: String,
    pub function: String,
    pub args: Vec<Value>,
    pub tets: Vec<Vec<Tet>>,
    #[serde(default)]
    pub arg_hash: String,
}
pub type SvcRes = (i32, String); // (ret_code, result text)

#[derive(Clone, Debug)]
pub struct Outcome {
    pub code: i64,
    pub msg: String,
    pub data: Vec<u8>,
    pub next: Vec<String>, // sorted
    pub next_raw_len: usize,
    pub next_has_dup: bool,
    pub reqs: BTreeMap<u32, Req>,
    pub reqs_decode_err: Option<String>,
    pub flags: (bool, bool, bool),
    pub probes: Vec<(String, String)>,
    pub peak_heap: usize,
    pub panic: Option<String>, // "file:line: message"
}

thread_local! {
    static LAST_PANIC: RefCell<Option<String>> = const { RefCell::new(None) };
}
pub fn last_panic() -> String {
    LAST_PANIC.with(|p| p.borrow().clone()).unwrap_or_default()
}
pub fn install_panic_hook() {
    std::panic::set_hook(Box::new(|info| {
        let loc = info.location().map(|l| format!("{}:{}", l.file(), l.line())).unwrap_or_default();
        let msg = if let Some(s) = info.payload().downcast_ref::<&str>() {
            s.to_string()
        } else if let Some(s) = info.payload().downcast_ref::<String>() {
            s.clone()
        } else {
            String::new()
        };
        // the message may quote strings from corrupted data that are not valid UTF-8 (see finding F15): sanitise
        let msg = String::from_utf8_lossy(msg.as_bytes()).into_owned();
        if (!loc.starts_with("/repo/") && !loc.contains("/.cargo/registry/")) || std::env::var("VERIF_SHOW_PANICS").is_ok() {
            // a panic in the simulator's own code is a harness error and must be visible
            eprintln!("HARNESS-PANIC at {loc}: {msg}");
        }
        LAST_PANIC.with(|p| *p.borrow_mut() = Some(format!("{loc}: {msg}")));
    }));
}

pub struct RunArgs<'a> {
    pub air: &'a str,
    pub prev: &'a [u8],
    pub cur: &'a [u8],
    pub keys: &'a Keys,
    pub init_peer: &'a str,
    pub particle_id: &'a str,
    pub timestamp: u64,
    pub ttl: u32,
    pub limits: &'a Limits,
    pub results: &'a BTreeMap<String, SvcRes>,
    pub raw_results: Option<&'a [u8]>, // adversarial: bytes passed verbatim instead of `results`
}

pub fn encode_results(results: &BTreeMap<String, SvcRes>) -> Vec<u8> {
    let mut cr = CallResults::new();
    for (k, (c, r)) in results {
        cr.insert(k.clone(), CallServiceResult { ret_code: *c, result: r.clone() });
    }
    CallResultsRepr.serialize(&cr).expect("call results serialize").to_vec()
}

pub fn run(a: &RunArgs<'_>) -> Outcome {
    let raw = match a.raw_results {
        Some(b) => b.to_vec(),
        None => encode_results(a.results),
    };
    let params = RunParameters {
        init_peer_id: a.init_peer.into(),
        current_peer_id: a.keys.id.clone(),
        timestamp: a.timestamp,
        ttl: a.ttl,
        key_format: a.keys.format,
        secret_key_bytes: a.keys.secret.clone(),
        particle_id: a.particle_id.into(),
        air_size_limit: a.limits.air,
        particle_size_limit: a.limits.particle,
        call_result_size_limit: a.limits.call_result,
        hard_limit_enabled: a.limits.hard,
    };
    let air = a.air.to_string();
    let prev = a.prev.to_vec();
    let cur = a.cur.to_vec();
    let _ = air_log_targets::probe::drain();
    LAST_PANIC.with(|p| *p.borrow_mut() = None);
    let mark = heap_mark();
    let res = std::panic::catch_unwind(std::panic::AssertUnwindSafe(move || {
        air::execute_air(air, prev, cur, params, raw.into())
    }));
    let peak_heap = heap_peak_since(mark);
    let probes: Vec<(String, String)> =
        air_log_targets::probe::drain().into_iter().map(|(n, d)| (n.to_string(), d)).collect();
    match res {
        Err(_) => {
            let p = LAST_PANIC.with(|p| p.borrow().clone()).unwrap_or_else(|| "unknown".into());
            Outcome {
                code: -1,
                msg: "PANIC".into(),
                data: vec![],
                next: vec![],
                next_raw_len: 0,
                next_has_dup: false,
                reqs: BTreeMap::new(),
                reqs_decode_err: None,
                flags: (false, false, false),
                probes,
                peak_heap,
                panic: Some(p),
            }
        }
        Ok(o) => {
            let mut next = o.next_peer_pks.clone();
            next.sort();
            let raw_len = next.len();
            next.dedup();
            let has_dup = next.len() != raw_len;
            let (reqs, err) = decode_requests(&o.call_requests);
            // A String that is not valid UTF-8 can only come from unchecked construction somewhere below
            // (undefined behaviour by Rust's rules); report it as a crash-class outcome and keep the harness safe.
            let bad_utf8 = std::str::from_utf8(o.error_message.as_bytes()).is_err();
            let msg = if bad_utf8 { String::from_utf8_lossy(o.error_message.as_bytes()).into_owned() } else { o.error_message };
            if bad_utf8 {
                return Outcome {
                    code: o.ret_code,
                    msg: msg.clone(),
                    data: o.data,
                    next,
                    next_raw_len: raw_len,
                    next_has_dup: has_dup,
                    reqs,
                    reqs_decode_err: err,
                    flags: (false, false, false),
                    probes,
                    peak_heap,
                    panic: Some(format!("invalid-utf8-in-error-message: the returned error message is a String with invalid UTF-8 ({})", msg.chars().take(200).collect::<String>())),
                };
            }
            Outcome {
                code: o.ret_code,
                msg,
                data: o.data,
                next,
                next_raw_len: raw_len,
                next_has_dup: has_dup,
                reqs,
                reqs_decode_err: err,
                flags: (o.air_size_limit_exceeded, o.particle_size_limit_exceeded, o.call_result_size_limit_exceeded),
                probes,
                peak_heap,
                panic: None,
            }
        }
    }
}

pub fn decode_requests(raw: &[u8]) -> (BTreeMap<u32, Req>, Option<String>) {
    let mut out = BTreeMap::new();
    if raw.is_empty() {
        return (out, None);
    }
    let rq: CallRequests = match CallRequestsRepr.deserialize(raw) {
        Ok(r) => r,
        Err(e) => return (out, Some(format!("{e}"))),
    };
    for (id, p) in rq {
        let args: Vec<Value> = match CallArgumentsRepr.deserialize(&p.arguments) {
            Ok(a) => a,
            Err(e) => return (out, Some(format!("args: {e}"))),
        };
        let tets: Vec<Vec<polyplets::SecurityTetraplet>> = match TetrapletsRepr.deserialize(&p.tetraplets) {
            Ok(t) => t,
            Err(e) => return (out, Some(format!("tetraplets: {e}"))),
        };
        let tets = tets
            .into_iter()
            .map(|v| {
                v.into_iter()
                    .map(|t| Tet { peer: t.peer_pk, service: t.service_id, function: t.function_name, lens: t.lens })
                    .collect()
            })
            .collect();
        let jargs: Result<Vec<air_interpreter_value::JValue>, _> = CallArgumentsRepr.deserialize(&p.arguments);
        let arg_hash = match jargs {
            Ok(a) => air_interpreter_cid::value_to_json_cid(&a).map(|c| c.get_inner().to_string()).unwrap_or_default(),
            Err(_) => String::new(),
        };
        out.insert(id, Req { service: p.service_id, function: p.function_name, args, tets, arg_hash });
    }
    (out, None)
}

// ---------- data decoding ----------
pub struct Decoded {
    pub version: semver::Version,
    pub data_version: semver::Version,
    pub data: InterpreterData,
}
pub fn decode(d: &[u8]) -> Result<Decoded, String> {
    if d.is_empty() {
        return Ok(Decoded {
            version: air::interpreter_version().clone(),
            data_version: semver::Version::new(0, 0, 0),
            data: InterpreterData::default(),
        });
    }
    let env = InterpreterDataEnvelope::try_from_slice(d).map_err(|e| format!("envelope: {e}"))?;
    let data = InterpreterData::try_from_slice(&env.inner_data).map_err(|e| format!("inner: {e}"))?;
    Ok(Decoded { version: env.versions.interpreter_version.clone(), data_version: env.versions.data_version.clone(), data })
}
pub fn dec(d: &[u8]) -> InterpreterData {
    decode(d).map(|x| x.data).unwrap_or_default()
}
/// Canonical JSON form of data (maps become sorted objects) for comparisons and digests.
pub fn data_json(d: &InterpreterData) -> Value {
    canon_json(serde_json::to_value(d).expect("data to json"))
}
/// serde_json::Value objects are BTreeMaps (no preserve_order feature), so to_value already
/// sorts keys; CidStore serializes as a map. Nothing else to do but keep this as the seam.
pub fn canon_json(v: Value) -> Value {
    v
}
pub fn encode_data(data: &InterpreterData, version: semver::Version) -> Vec<u8> {
    let env = InterpreterDataEnvelope::from_execution_result(
        data.trace.clone(),
        data.cid_info.clone(),
        data.signatures.clone(),
        data.last_call_request_id,
        version,
    );
    env.serialize().expect("envelope serialize")
}
pub fn show_trace(d: &InterpreterData) -> String {
    d.trace.iter().enumerate().map(|(i, s)| format!("{i}:{s}")).collect::<Vec<_>>().join(" | ")
}

// ---------------------------------------------------------------------------------------------
// watchdog in CPU time of the process (ITIMER_PROF): a loaded machine must not turn a slow history into a "hang"
// ---------------------------------------------------------------------------------------------
#[repr(C)]
struct TimeVal {
    tv_sec: i64,
    tv_usec: i64,
}
#[repr(C)]
struct ITimerVal {
    it_interval: TimeVal,
    it_value: TimeVal,
}
extern "C" {
    fn setitimer(which: i32, new_value: *const ITimerVal, old_value: *mut ITimerVal) -> i32;
}
/// Arms (secs > 0) or disarms (secs == 0) a SIGPROF after `secs` seconds of CPU time consumed by this process.
pub fn cpu_watchdog(secs: i64) {
    const ITIMER_PROF: i32 = 2;
    let v = ITimerVal { it_interval: TimeVal { tv_sec: 0, tv_usec: 0 }, it_value: TimeVal { tv_sec: secs, tv_usec: 0 } };
    unsafe {
        setitimer(ITIMER_PROF, &v, std::ptr::null_mut());
    }
}
