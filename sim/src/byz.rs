//! Structure-aware Byzantine operations on decoded data (C14 catalog, C01 re-attribution).
use crate::tamper::ForgeOp;
use crate::world::World;
use air_interpreter_data::InterpreterData;

/// Returns the tampered data and, if the op altered something attributed to a peer other than
/// the attacker, a "must reject" tag.
pub fn apply(_w: &World, _data: InterpreterData, _by: usize, _op: &ForgeOp, _particle: &str) -> Option<(InterpreterData, Option<String>)> {
    None
}

pub fn draw(_w: &World, _rng: &mut crate::rngx::Rng, _mid: crate::world::MsgId, _from: usize) -> Option<Vec<ForgeOp>> {
    None
}
