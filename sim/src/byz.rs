//! Structure-aware Byzantine operations on decoded data (C14 catalog, C01 re-attribution and
//! structural mutation). Data is edited through its own serde form (to_value -> edit -> from_value),
//! so "structurally valid" holds by construction. The attacker re-signs only its own result set.

use crate::rngx::Rng;
use crate::tamper::ForgeOp;
use crate::world::{MsgId, World};
use air_interpreter_data::{InterpreterData, ServiceResultCidAggregate};
use polyplets::SecurityTetraplet;
use serde_json::{json, Value};

fn agg_cid(v: &Value) -> Option<String> {
    let t: ServiceResultCidAggregate = serde_json::from_value(v.clone()).ok()?;
    Some(air_interpreter_cid::value_to_json_cid(&t).ok()?.get_inner().to_string())
}
fn tet_cid(v: &Value) -> Option<String> {
    let t: SecurityTetraplet = serde_json::from_value(v.clone()).ok()?;
    Some(air_interpreter_cid::value_to_json_cid(&t).ok()?.get_inner().to_string())
}
fn raw_cid(raw: &str) -> String {
    air_interpreter_cid::raw_value_to_json_cid::<air_interpreter_data::RawValue>(raw.as_bytes()).get_inner().to_string()
}

/// the cid a call state refers to: (kind path, cid)
fn state_cid(st: &Value) -> Option<(&'static str, String)> {
    let c = st.get("call")?;
    if let Some(e) = c.get("executed") {
        if let Some(s) = e.get("scalar") {
            return Some(("scalar", s.as_str()?.to_string()));
        }
        if let Some(s) = e.get("stream") {
            return Some(("stream", s.get("cid")?.as_str()?.to_string()));
        }
        if let Some(s) = e.get("unused") {
            return Some(("unused", s.as_str()?.to_string()));
        }
    }
    if let Some(f) = c.get("failed") {
        return Some(("failed", f.as_str()?.to_string()));
    }
    None
}
fn set_state_cid(st: &mut Value, new: &str) {
    if let Some(c) = st.get_mut("call") {
        if let Some(e) = c.get_mut("executed") {
            if e.get("scalar").is_some() {
                e["scalar"] = json!(new);
            } else if e.get("stream").is_some() {
                e["stream"]["cid"] = json!(new);
            }
        } else if c.get("failed").is_some() {
            c["failed"] = json!(new);
        }
    }
}

struct Doc {
    j: Value,
}
impl Doc {
    fn aggs_of_others(&self, me: &str) -> Vec<String> {
        // service-result aggregate cids referenced by the trace and attributed to a peer other than `me`
        let mut v = vec![];
        let empty = vec![];
        for st in self.j["trace"].as_array().unwrap_or(&empty) {
            if let Some((kind, cid)) = state_cid(st) {
                if kind == "unused" {
                    continue;
                }
                if let Some(p) = self.peer_of_agg(&cid) {
                    if p != me && !v.contains(&cid) {
                        v.push(cid);
                    }
                }
            }
        }
        v.sort();
        v
    }
    fn aggs_of_own(&self, me: &str) -> Vec<String> {
        let mut v = vec![];
        let empty = vec![];
        for st in self.j["trace"].as_array().unwrap_or(&empty) {
            if let Some((kind, cid)) = state_cid(st) {
                if kind == "unused" {
                    continue;
                }
                if self.peer_of_agg(&cid).as_deref() == Some(me) && !v.contains(&cid) {
                    v.push(cid);
                }
            }
        }
        v.sort();
        v
    }
    fn peer_of_agg(&self, cid: &str) -> Option<String> {
        let agg = self.j["cid_info"]["service_result_store"].get(cid)?;
        let t = self.j["cid_info"]["tetraplet_store"].get(agg.get("tetraplet_cid")?.as_str()?)?;
        Some(t.get("peer_pk")?.as_str()?.to_string())
    }
    /// replace an aggregate by a modified one, keeping stores and trace consistent; returns the new cid
    fn rekey_agg(&mut self, old: &str, new_agg: Value) -> Option<String> {
        let new = agg_cid(&new_agg)?;
        let store = self.j["cid_info"]["service_result_store"].as_object_mut()?;
        store.remove(old);
        store.insert(new.clone(), new_agg);
        for st in self.j["trace"].as_array_mut()? {
            if let Some((_, c)) = state_cid(st) {
                if c == old {
                    set_state_cid(st, &new);
                }
            }
        }
        // canon elements may refer to the aggregate through their provenance
        if let Some(els) = self.j["cid_info"]["canon_element_store"].as_object_mut() {
            for (_, e) in els.iter_mut() {
                if e["provenance"]["cid"].as_str() == Some(old) {
                    e["provenance"]["cid"] = json!(new);
                }
            }
        }
        Some(new)
    }
}

/// Returns the tampered data and, if the op altered something attributed to a peer other than the
/// attacker in a way that verification must catch regardless of what the script reaches, a tag.
pub fn apply(w: &World, data: InterpreterData, by: usize, op: &ForgeOp, particle: &str) -> Option<(InterpreterData, Option<String>)> {
    let me = w.ids[by].clone();
    let mut d = Doc { j: serde_json::to_value(&data).ok()? };
    let mut must: Option<String> = None;
    let mut resign = true;
    match op {
        ForgeOp::ValueSwap { n } => {
            let c = d.aggs_of_others(&me);
            if c.is_empty() {
                return None;
            }
            let agg = &c[*n as usize % c.len()];
            let vcid = d.j["cid_info"]["service_result_store"][agg]["value_cid"].as_str()?.to_string();
            d.j["cid_info"]["value_store"][&vcid] = json!(format!("{{\"forged\":{n}}}"));
            must = Some("value_swap".into());
        }
        ForgeOp::CidRewrite { n } => {
            let c = d.aggs_of_others(&me);
            if c.is_empty() {
                return None;
            }
            let old = c[*n as usize % c.len()].clone();
            let raw = format!("{{\"forged\":{n},\"by\":\"cid_rewrite\"}}");
            let nv = raw_cid(&raw);
            d.j["cid_info"]["value_store"][&nv] = json!(raw);
            let mut agg = d.j["cid_info"]["service_result_store"][&old].clone();
            agg["value_cid"] = json!(nv);
            d.rekey_agg(&old, agg)?;
            must = Some("cid_rewrite".into());
        }
        ForgeOp::ArgHashChange { n } => {
            let c = d.aggs_of_others(&me);
            if c.is_empty() {
                return None;
            }
            let old = c[*n as usize % c.len()].clone();
            let mut agg = d.j["cid_info"]["service_result_store"][&old].clone();
            agg["argument_hash"] = json!(raw_cid(&format!("[\"forged-args-{n}\"]")));
            d.rekey_agg(&old, agg)?;
            must = Some("arg_hash_change".into());
        }
        ForgeOp::TetrapletChange { n, field } => {
            let c = d.aggs_of_others(&me);
            if c.is_empty() {
                return None;
            }
            let old = c[*n as usize % c.len()].clone();
            let mut agg = d.j["cid_info"]["service_result_store"][&old].clone();
            let tc = agg["tetraplet_cid"].as_str()?.to_string();
            let mut t = d.j["cid_info"]["tetraplet_store"][&tc].clone();
            match field % 4 {
                0 => t["peer_pk"] = json!(me), // re-attribute to the attacker (passes signatures; the call check must catch it)
                1 => t["service_id"] = json!("forged-svc"),
                2 => t["function_name"] = json!(format!("{}x", t["function_name"].as_str().unwrap_or(""))),
                _ => t["lens"] = json!(".$.forged"),
            }
            let ntc = tet_cid(&t)?;
            d.j["cid_info"]["tetraplet_store"][&ntc] = t;
            agg["tetraplet_cid"] = json!(ntc);
            d.rekey_agg(&old, agg)?;
            if field % 4 != 0 {
                must = Some("tetraplet_change".into());
            }
        }
        ForgeOp::Relocate { n, m } => {
            // swap two results of other peers between their call positions (signature multisets unchanged)
            let tr = d.j["trace"].as_array()?.clone();
            let pos: Vec<usize> = tr
                .iter()
                .enumerate()
                .filter(|(_, st)| matches!(state_cid(st), Some((k, ref c)) if k != "unused" && d.peer_of_agg(c).map(|p| p != me).unwrap_or(false)))
                .map(|(i, _)| i)
                .collect();
            if pos.len() < 2 {
                return None;
            }
            let a = pos[*n as usize % pos.len()];
            let b = pos[*m as usize % pos.len()];
            if a == b || state_cid(&tr[a]) == state_cid(&tr[b]) {
                return None;
            }
            let arr = d.j["trace"].as_array_mut()?;
            arr.swap(a, b);
        }
        ForgeOp::KindExecutedFailed { n } => {
            let arr = d.j["trace"].as_array()?.clone();
            let pos: Vec<usize> = arr
                .iter()
                .enumerate()
                .filter(|(_, st)| matches!(state_cid(st), Some((k, ref c)) if (k == "scalar" || k == "failed") && d.peer_of_agg(c).map(|p| p != me).unwrap_or(false)))
                .map(|(i, _)| i)
                .collect();
            if pos.is_empty() {
                return None;
            }
            let i = pos[*n as usize % pos.len()];
            let (k, c) = state_cid(&arr[i])?;
            d.j["trace"][i] = if k == "scalar" { json!({"call": {"failed": c}}) } else { json!({"call": {"executed": {"scalar": c}}}) };
        }
        ForgeOp::KindScalarStream { n } => {
            let arr = d.j["trace"].as_array()?.clone();
            let pos: Vec<usize> = arr
                .iter()
                .enumerate()
                .filter(|(_, st)| matches!(state_cid(st), Some((k, ref c)) if (k == "scalar" || k == "stream") && d.peer_of_agg(c).map(|p| p != me).unwrap_or(false)))
                .map(|(i, _)| i)
                .collect();
            if pos.is_empty() {
                return None;
            }
            let i = pos[*n as usize % pos.len()];
            let (k, c) = state_cid(&arr[i])?;
            d.j["trace"][i] = if k == "scalar" { json!({"call": {"executed": {"stream": {"cid": c, "generation": 0}}}}) } else { json!({"call": {"executed": {"scalar": c}}}) };
        }
        ForgeOp::KindUnusedScalar { n } => {
            let arr = d.j["trace"].as_array()?.clone();
            let pos: Vec<usize> = arr
                .iter()
                .enumerate()
                .filter(|(_, st)| matches!(state_cid(st), Some((k, ref c)) if k == "scalar" && d.peer_of_agg(c).map(|p| p != me).unwrap_or(false)))
                .map(|(i, _)| i)
                .collect();
            if pos.is_empty() {
                return None;
            }
            let i = pos[*n as usize % pos.len()];
            let (_, c) = state_cid(&arr[i])?;
            let vcid = d.j["cid_info"]["service_result_store"][&c]["value_cid"].as_str()?.to_string();
            d.j["trace"][i] = json!({"call": {"executed": {"unused": vcid}}});
            must = Some("kind_unused_scalar".into()); // the victim's signed multiset loses an element
        }
        ForgeOp::SigSwap { n } | ForgeOp::SigRemove { n } | ForgeOp::SigOwnUnderOther { n } => {
            let my_pk = crate::tamper::public_key_string(w, by);
            let sigs = d.j["signatures"].as_object()?.clone();
            let others: Vec<String> = sigs.keys().filter(|k| **k != my_pk).cloned().collect();
            if others.is_empty() {
                return None;
            }
            let victim = others[*n as usize % others.len()].clone();
            // only meaningful if the victim has results in the trace
            match op {
                ForgeOp::SigRemove { .. } => {
                    d.j["signatures"].as_object_mut()?.remove(&victim);
                }
                ForgeOp::SigSwap { .. } => {
                    let other = others[(*n as usize + 1) % others.len()].clone();
                    if other == victim {
                        // swap in the attacker's signature instead
                        let mine = sigs.get(&my_pk)?.clone();
                        d.j["signatures"][&victim] = mine;
                    } else {
                        let a = sigs[&victim].clone();
                        let b = sigs[&other].clone();
                        d.j["signatures"][&victim] = b;
                        d.j["signatures"][&other] = a;
                    }
                }
                _ => {
                    let mine = sigs.get(&my_pk)?.clone();
                    d.j["signatures"][&victim] = mine;
                }
            }
            let victim_has_results = {
                let nd: InterpreterData = serde_json::from_value(d.j.clone()).ok()?;
                crate::tamper::peers_with_results(&nd).iter().any(|p| crate::tamper::pk_string_of_peer(w, p).as_deref() == Some(victim.as_str()))
            };
            if !victim_has_results {
                return None;
            }
            must = Some("signature".into());
            resign = false;
        }
        ForgeOp::TruncateResults { n } => {
            // drop one result of another peer from the trace (turn it back into a pending marker) while keeping
            // that peer's newer signature over the larger set
            let arr = d.j["trace"].as_array()?.clone();
            let pos: Vec<usize> = arr
                .iter()
                .enumerate()
                .filter(|(_, st)| matches!(state_cid(st), Some((k, ref c)) if k != "unused" && d.peer_of_agg(c).map(|p| p != me).unwrap_or(false)))
                .map(|(i, _)| i)
                .collect();
            if pos.is_empty() {
                return None;
            }
            let i = pos[*n as usize % pos.len()];
            d.j["trace"][i] = json!({"call": {"sent_by": {"PeerId": me}}});
            must = Some("truncate_results".into());
        }
        ForgeOp::OwnRewrite { n } => {
            // equivocation: the sender replaces one of its OWN results by another value and signs the new set;
            // nothing attributed to another peer changes, so verification alone cannot object (C15 must)
            let c = d.aggs_of_own(&me);
            if c.is_empty() {
                return None;
            }
            let old = c[*n as usize % c.len()].clone();
            let raw = format!("{{\"equivocated\":{n}}}");
            let nv = raw_cid(&raw);
            d.j["cid_info"]["value_store"][&nv] = json!(raw);
            let mut agg = d.j["cid_info"]["service_result_store"][&old].clone();
            agg["value_cid"] = json!(nv);
            d.rekey_agg(&old, agg)?;
        }
        ForgeOp::CanonRewrite { n } => {
            // alter another peer's executed canon result (reorder / drop an element), stores kept consistent
            let arr = d.j["trace"].as_array()?.clone();
            let mut cands: Vec<(usize, String)> = vec![];
            for (i, st) in arr.iter().enumerate() {
                if let Some(c) = st.get("canon").and_then(|c| c.get("executed")).and_then(|c| c.as_str()) {
                    let agg = d.j["cid_info"]["canon_result_store"].get(c)?;
                    let t = d.j["cid_info"]["tetraplet_store"].get(agg.get("tetraplet")?.as_str()?)?;
                    if t.get("peer_pk")?.as_str()? != me {
                        cands.push((i, c.to_string()));
                    }
                }
            }
            if cands.is_empty() {
                return None;
            }
            let (pos, old) = cands[*n as usize % cands.len()].clone();
            let mut agg = d.j["cid_info"]["canon_result_store"][&old].clone();
            let vals = agg["values"].as_array_mut()?;
            if vals.len() >= 2 {
                vals.swap(0, 1);
            } else if vals.len() == 1 {
                vals.clear();
            } else {
                return None;
            }
            let typed: air_interpreter_data::CanonResultCidAggregate = serde_json::from_value(agg.clone()).ok()?;
            let new = air_interpreter_cid::value_to_json_cid(&typed).ok()?.get_inner().to_string();
            if new == old {
                return None;
            }
            d.j["cid_info"]["canon_result_store"][&new] = agg;
            d.j["trace"][pos] = json!({"canon": {"executed": new}});
            // drop the replaced entry unless something still refers to it (a second rewrite of the same canon then
            // restores the original data exactly, and the pair is recognised as cancelling out)
            let still_used = d.j["trace"].as_array()?.iter().any(|st| st.get("canon").and_then(|c| c.get("executed")).and_then(|c| c.as_str()) == Some(old.as_str()))
                || d.j["cid_info"]["canon_element_store"].as_object().map(|els| els.values().any(|e| e["provenance"]["cid"].as_str() == Some(old.as_str()))).unwrap_or(false);
            if !still_used {
                if let Some(store) = d.j["cid_info"]["canon_result_store"].as_object_mut() {
                    store.remove(&old);
                }
            }
            must = Some("canon_rewrite".into());
        }
        ForgeOp::Reattribute => {
            reattribute(&mut d, &me)?;
            // every other signature is dropped: the attacker claims everything
            let my_pk = crate::tamper::public_key_string(w, by);
            let keep: Vec<String> = d.j["signatures"].as_object()?.keys().filter(|k| **k != my_pk).cloned().collect();
            for k in keep {
                d.j["signatures"].as_object_mut()?.remove(&k);
            }
        }
        ForgeOp::Struct { path_sel, kind, val } => {
            struct_mutate(&mut d, *path_sel, *kind, *val, &me)?;
        }
        _ => return None,
    }
    let mut nd: InterpreterData = serde_json::from_value(d.j).ok()?;
    if resign {
        crate::tamper::resign_own(w, &mut nd, by, particle);
    }
    Some((nd, must))
}

/// rewrite every tetraplet to name the attacker, keeping service-result stores and the trace consistent
fn reattribute(d: &mut Doc, me: &str) -> Option<()> {
    let tets = d.j["cid_info"]["tetraplet_store"].as_object()?.clone();
    let mut tmap: Vec<(String, String)> = vec![];
    let mut new_store = serde_json::Map::new();
    for (c, t) in tets.iter() {
        let mut t2 = t.clone();
        t2["peer_pk"] = json!(me);
        let nc = tet_cid(&t2)?;
        new_store.insert(nc.clone(), t2);
        tmap.push((c.clone(), nc));
    }
    d.j["cid_info"]["tetraplet_store"] = Value::Object(new_store);
    let map_t = |c: &str| tmap.iter().find(|(o, _)| o == c).map(|(_, n)| n.clone());
    let aggs = d.j["cid_info"]["service_result_store"].as_object()?.clone();
    for (c, a) in aggs.iter() {
        let mut a2 = a.clone();
        if let Some(n) = map_t(a["tetraplet_cid"].as_str()?) {
            a2["tetraplet_cid"] = json!(n);
        }
        d.rekey_agg(c, a2)?;
    }
    // canon stores: tetraplet references only (element/result cids are left as they are, which makes
    // canon-bearing data fail store verification - still adversarial input for C01)
    for store in ["canon_element_store", "canon_result_store"] {
        if let Some(o) = d.j["cid_info"][store].as_object_mut() {
            for (_, e) in o.iter_mut() {
                if let Some(tc) = e.get("tetraplet").and_then(|x| x.as_str()).map(|s| s.to_string()) {
                    if let Some(n) = map_t(&tc) {
                        e["tetraplet"] = json!(n);
                    }
                }
            }
        }
    }
    Some(())
}

pub const ADV_VALUES: &[u64] = &[0, 1, 2, 3, 7, 0x7fff_ffff, 0x8000_0000, 0xffff_fffa, 0xffff_fffe, 0xffff_ffff, 50_000_000, 1_000_000];

/// structural mutation of the (re-attributed) trace / stores
fn struct_mutate(d: &mut Doc, sel: u32, kind: u8, val: u64, me: &str) -> Option<()> {
    let n = d.j["trace"].as_array()?.len();
    match kind % 12 {
        0 | 1 | 2 | 3 => {
            // a numeric leaf of the trace set to an adversarial value
            let mut leaves: Vec<Vec<String>> = vec![];
            fn collect(v: &Value, path: Vec<String>, out: &mut Vec<Vec<String>>) {
                match v {
                    Value::Number(_) => out.push(path),
                    Value::Array(a) => {
                        for (i, x) in a.iter().enumerate() {
                            let mut p = path.clone();
                            p.push(i.to_string());
                            collect(x, p, out);
                        }
                    }
                    Value::Object(o) => {
                        for (k, x) in o.iter() {
                            let mut p = path.clone();
                            p.push(k.clone());
                            collect(x, p, out);
                        }
                    }
                    _ => {}
                }
            }
            collect(&d.j["trace"], vec![], &mut leaves);
            if leaves.is_empty() {
                return None;
            }
            let p = &leaves[sel as usize % leaves.len()];
            let mut cur = &mut d.j["trace"];
            for seg in p {
                cur = match cur {
                    Value::Array(a) => a.get_mut(seg.parse::<usize>().ok()?)?,
                    Value::Object(o) => o.get_mut(seg)?,
                    _ => return None,
                };
            }
            let base = cur.as_u64().unwrap_or(0);
            let v = match val % 16 {
                12 => base.wrapping_add(1),
                13 => base.saturating_sub(1),
                14 => n as u64,
                15 => n as u64 + 1,
                i => ADV_VALUES[i as usize % ADV_VALUES.len()],
            };
            *cur = json!(v & 0xffff_ffff);
        }
        4 => {
            // duplicate a fold lore entry / give it a third descriptor
            for st in d.j["trace"].as_array_mut()? {
                if let Some(l) = st.get_mut("fold").and_then(|f| f.get_mut("lore")).and_then(|l| l.as_array_mut()) {
                    if !l.is_empty() {
                        let i = sel as usize % l.len();
                        if val % 2 == 0 {
                            let e = l[i].clone();
                            l.push(e);
                        } else if let Some(ds) = l[i].get_mut("desc").and_then(|x| x.as_array_mut()) {
                            if val % 4 == 1 {
                                let e = ds[0].clone();
                                ds.push(e);
                            } else {
                                ds.pop();
                            }
                        }
                        return Some(());
                    }
                }
            }
            return None;
        }
        5 => {
            // ap generations: empty or long
            for st in d.j["trace"].as_array_mut()? {
                if let Some(g) = st.get_mut("ap").and_then(|a| a.get_mut("gens")) {
                    *g = if val % 2 == 0 { json!([]) } else { json!([0, 1, 2, 3]) };
                    return Some(());
                }
            }
            return None;
        }
        6 => {
            // a CID present in the trace but absent from the service-result store
            let arr = d.j["trace"].as_array()?.clone();
            let c: Vec<String> = arr.iter().filter_map(|s| state_cid(s)).filter(|(k, _)| *k != "unused").map(|x| x.1).collect();
            if c.is_empty() {
                return None;
            }
            let victim = &c[sel as usize % c.len()];
            d.j["cid_info"]["service_result_store"].as_object_mut()?.remove(victim);
        }
        7 => {
            // a stored value that hashes correctly but is not JSON
            let aggs = d.j["cid_info"]["service_result_store"].as_object()?.clone();
            if aggs.is_empty() {
                return None;
            }
            let (c, a) = aggs.iter().nth(sel as usize % aggs.len())?;
            let raw = format!("<<not json {val}");
            let nv = raw_cid(&raw);
            d.j["cid_info"]["value_store"][&nv] = json!(raw);
            let mut a2 = a.clone();
            a2["value_cid"] = json!(nv);
            d.rekey_agg(c, a2)?;
        }
        8 => {
            // a Failed / pending-by-self state at a random call position
            if n == 0 {
                return None;
            }
            let i = sel as usize % n;
            let arr = d.j["trace"].as_array()?.clone();
            if arr[i].get("call").is_none() {
                return None;
            }
            let any = arr.iter().filter_map(|s| state_cid(s)).find(|(k, _)| *k != "unused").map(|x| x.1);
            d.j["trace"][i] = match (val % 3, any) {
                (0, Some(c)) => json!({"call": {"failed": c}}),
                (1, _) => json!({"call": {"sent_by": {"PeerIdWithCallId": {"peer_id": me, "call_id": (val % 7) as u32}}}}),
                (_, Some(c)) => json!({"call": {"executed": {"scalar": c}}}),
                _ => return None,
            };
        }
        9 => {
            // swap two trace states (kind confusion)
            if n < 2 {
                return None;
            }
            let a = sel as usize % n;
            let b = (val as usize) % n;
            d.j["trace"].as_array_mut()?.swap(a, b);
        }
        10 => {
            // drop or duplicate a state
            if n == 0 {
                return None;
            }
            let i = sel as usize % n;
            let arr = d.j["trace"].as_array_mut()?;
            if val % 2 == 0 {
                arr.remove(i);
            } else {
                let e = arr[i].clone();
                arr.insert(i, e);
            }
        }
        _ => {
            // last_call_request_id at the edge
            d.j["lcid"] = json!(ADV_VALUES[val as usize % ADV_VALUES.len()] & 0xffff_ffff);
        }
    }
    Some(())
}

pub fn draw(w: &World, rng: &mut Rng, mid: MsgId, _from: usize) -> Option<Vec<ForgeOp>> {
    let _ = mid;
    let n = rng.u32() % 64;
    let m = rng.u32() % 64;
    if w.sc.fault_cfg.contains_key("reattribute") {
        // C01: wholesale re-attribution followed by 0-2 structural mutations (or a catalog op)
        let r = w.sc.fault_cfg.get("reattribute").cloned().unwrap_or(0);
        if rng.u32() % 1000 < r {
            let mut ops = vec![ForgeOp::Reattribute];
            for _ in 0..rng.below(3) {
                ops.push(ForgeOp::Struct { path_sel: rng.u32(), kind: (rng.u32() % 12) as u8, val: rng.u64() % 4096 });
            }
            return Some(ops);
        }
    }
    let one = |rng: &mut Rng, n: u32, m: u32| -> ForgeOp {
        match rng.below(14) {
            13 => ForgeOp::CanonRewrite { n },
            0 => ForgeOp::ValueSwap { n },
            1 => ForgeOp::CidRewrite { n },
            2 => ForgeOp::TetrapletChange { n, field: (m % 4) as u8 },
            3 => ForgeOp::ArgHashChange { n },
            4 => ForgeOp::Relocate { n, m },
            5 => ForgeOp::KindExecutedFailed { n },
            6 => ForgeOp::KindScalarStream { n },
            7 => ForgeOp::KindUnusedScalar { n },
            8 => ForgeOp::SigSwap { n },
            9 => ForgeOp::SigRemove { n },
            10 => ForgeOp::SigOwnUnderOther { n },
            11 => ForgeOp::TruncateResults { n },
            _ => ForgeOp::OtherParticle(format!("other-particle-{}", n % 3)),
        }
    };
    let mut ops = vec![one(rng, n, m)];
    if rng.chance(25) {
        let n2 = rng.u32() % 64;
        ops.push(one(rng, n2, n));
    }
    Some(ops)
}
