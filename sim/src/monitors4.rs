//! C17 for canonical streams: the reference model does not know what a canon holds (that depends on the
//! schedule), so canon arguments are checked against (a) the peer's own CID stores — the tetraplets handed to
//! the service must be the ones recorded for the elements of some canon result the peer holds, in order — and
//! (b) the values themselves: the service table writes the producing function into every result, so an element
//! whose tetraplet has an empty lens must be the whole result of the call the tetraplet names, at the peer the
//! script addresses that call to, and a whole service result never carries the tetraplet of a literal.

use crate::interp::{self, Req, Tet};
use crate::monitors::{find_call, Mon};
use crate::script::{Arg, Node, PeerRef};
use crate::world::World;

fn peer_of_call(w: &World, fname: &str) -> Option<String> {
    match find_call(&w.sc.ast, fname) {
        Some(Node::Call { peer: PeerRef::Lit(i), .. }) => Some(w.ids[*i].clone()),
        Some(Node::Call { peer: PeerRef::Init, .. }) => Some(w.ids[0].clone()),
        _ => None,
    }
}

/// (values, tetraplets) of every canon result in the data, in element order
fn canon_results(d: &air_interpreter_data::InterpreterData) -> Vec<(Vec<serde_json::Value>, Vec<Tet>)> {
    let ci = &d.cid_info;
    let mut out = vec![];
    for (_cid, agg) in ci.canon_result_store.iter() {
        let mut vals = vec![];
        let mut tets = vec![];
        let mut ok = true;
        for e in &agg.values {
            let Some(el) = ci.canon_element_store.get(e) else {
                ok = false;
                break;
            };
            let (Some(v), Some(t)) = (ci.value_store.get(&el.value), ci.tetraplet_store.get(&el.tetraplet)) else {
                ok = false;
                break;
            };
            vals.push(serde_json::from_str::<serde_json::Value>(&v.get_value().to_string()).unwrap_or(serde_json::Value::Null));
            tets.push(Tet { peer: t.peer_pk.clone(), service: t.service_id.clone(), function: t.function_name.clone(), lens: t.lens.clone() });
        }
        if ok {
            out.push((vals, tets));
        }
    }
    out
}

pub fn c17_canon_args(m: &mut Mon, w: &mut World, idx: usize, id: u32, rq: &Req) -> bool {
    let Some(Node::Call { args, .. }) = find_call(&w.sc.ast, &rq.function).cloned() else { return false };
    let peer = w.runs[idx].peer;
    let eid = w.runs[idx].eid;
    let mut stores: Option<Vec<(Vec<serde_json::Value>, Vec<Tet>)>> = None;
    for (i, a) in args.iter().enumerate() {
        let Arg::Canon { name, lens } = a else { continue };
        if name.starts_with("#%") || !lens.is_empty() {
            continue;
        }
        let Some(arr) = rq.args.get(i).and_then(|v| v.as_array()).cloned() else { continue };
        let ts = rq.tets.get(i).cloned().unwrap_or_default();
        if ts.len() != arr.len() {
            let d = format!("peer {peer} eid {eid}: request {id} {}: canon argument {i} ({name}) has {} elements but {} tetraplets\nscript: {}", rq.function, arr.len(), ts.len(), w.sc.script);
            m.report(w, Some(idx), "C17", "canon-arg-tetraplet-count", d);
            return true;
        }
        for (e, t) in arr.iter().zip(ts.iter()) {
            let whole_result_of = e.as_object().and_then(|o| if o.contains_key("a") { o.get("f") } else { None }).and_then(|f| f.as_str()).map(|s| s.to_string());
            if t.lens.is_empty() && !t.function.is_empty() {
                let f = t.function.as_str();
                let kind_embeds_f = (f.starts_with('f') && f[1..].chars().all(|c| c.is_ascii_digit())) || f.starts_with("obj");
                let shape_ok = if kind_embeds_f {
                    e.get("f").and_then(|x| x.as_str()) == Some(f)
                } else if f.starts_with("arr") {
                    e.as_array().map(|a| a.iter().all(|s| s.as_str().map(|s| s.starts_with(&format!("{f}-"))).unwrap_or(false))).unwrap_or(false)
                } else {
                    true
                };
                let peer_ok = peer_of_call(w, f).map(|p| p == t.peer).unwrap_or(true);
                if !shape_ok || !peer_ok || t.service != "svc" {
                    let d = format!(
                        "peer {peer} eid {eid}: request {id} {}: element {e} of canon argument {i} ({name}) carries tetraplet {t:?}, which names a call that did not produce it (addressed to {:?})\nscript: {}",
                        rq.function,
                        peer_of_call(w, f),
                        w.sc.script
                    );
                    m.report(w, Some(idx), "C17", "canon-element-wrong-origin", d);
                    return true;
                }
                m.nontrivial.insert(crate::monitors::hash64(&format!("CT{}{}", t.function, t.peer)));
            } else if t.function.is_empty() && t.lens.is_empty() {
                if let Some(f) = whole_result_of {
                    if find_call(&w.sc.ast, &f).is_some() {
                        let d = format!(
                            "peer {peer} eid {eid}: request {id} {}: element {e} of canon argument {i} ({name}) is the result of call {f} but carries the tetraplet of a literal {t:?}\nscript: {}",
                            rq.function, w.sc.script
                        );
                        m.report(w, Some(idx), "C17", "canon-element-literal-tetraplet", d);
                        return true;
                    }
                }
            }
        }
        // (a) the peer's own stores know a canon result with exactly these values and tetraplets
        if stores.is_none() {
            let d = m.decoded(w, idx);
            stores = Some(canon_results(&d));
        }
        let known = stores.as_ref().unwrap().iter().any(|(v, t)| *v == arr && t.len() == ts.len() && t.iter().zip(ts.iter()).all(|(x, y)| x == y));
        if !known {
            let d = format!(
                "peer {peer} eid {eid}: request {id} {}: canon argument {i} ({name}) = {} with tetraplets {ts:?} matches no canon result in the data the run returned\nscript: {}",
                rq.function,
                serde_json::Value::Array(arr.clone()),
                w.sc.script
            );
            m.report(w, Some(idx), "C17", "canon-arg-not-in-stores", d);
            return true;
        }
        m.count("c17_canon_args_checked");
    }
    let _ = interp::dec;
    false
}

// ---------------- C13 at the stream size limit ----------------
/// Scripts from `script3::gen_c13_limit`: n*m appends into `$big` within one run. A stream holds at most
/// STREAM_MAX_SIZE - 1 values: below that every append must be there exactly once (canon length == n*m) and the
/// limit must not trigger; at or above it the run must end with the stream-size error and never reach the probe.
pub fn c13_limit(m: &mut Mon, w: &mut World) {
    const LIMIT: usize = 1024;
    let mut n = 0usize;
    let mut k = 0usize;
    let mut calls = vec![];
    w.sc.ast.calls(&mut calls);
    for c in calls {
        if let Node::Call { fname, .. } = c {
            if let Some(x) = fname.strip_prefix("bigb") {
                k = x.parse().unwrap_or(0);
            } else if let Some(x) = fname.strip_prefix("big") {
                n = x.parse().unwrap_or(0);
            }
        }
    }
    if n == 0 || k == 0 {
        return;
    }
    let total = n * k;
    let mut lens: Vec<(u32, serde_json::Value)> = vec![];
    let mut limit_errors = 0;
    for r in &w.runs {
        if r.taint.contains("forged") {
            return;
        }
        for q in r.out.reqs.values() {
            if q.function == "len1" {
                lens.push((r.eid, q.args.first().cloned().unwrap_or_default()));
            }
        }
        if r.out.code != 0 && r.out.msg.contains("stream size goes over the allowed limit") {
            limit_errors += 1;
        }
    }
    if total < LIMIT {
        if limit_errors > 0 {
            let d = format!("{n}x{k} = {total} appends (below the limit of {LIMIT}) but {limit_errors} runs ended with the stream size error\nscript: {}", w.sc.script);
            m.report(w, None, "C13", "limit-hit-below-limit", d);
            return;
        }
        for (eid, v) in &lens {
            if v.as_u64() != Some(total as u64) {
                let d = format!("eid {eid}: the stream received {n}x{k} = {total} appends but its canon has length {v}\nscript: {}", w.sc.script);
                m.report(w, None, "C13", "stream-length-wrong", d);
                return;
            }
        }
        let lossless = !["drop", "crash_volatile", "partition_lossy", "rollback"].iter().any(|f| w.sc.fault_cfg.get(*f).cloned().unwrap_or(0) > 0);
        if w.quiescent() && lossless && w.runs.iter().all(|r| r.out.code == 0) && lens.is_empty() {
            let d = format!("{n}x{k} = {total} appends: the history is quiescent but the length probe was never requested\nscript: {}", w.sc.script);
            m.report(w, None, "C13", "stream-length-probe-missing", d);
            return;
        }
        if !lens.is_empty() {
            m.count("c13_limit_below_checked");
            m.nontrivial.insert(crate::monitors::hash64(&format!("lim{n}x{k}")));
        }
    } else {
        if let Some((eid, v)) = lens.first() {
            let d = format!("eid {eid}: {n}x{k} = {total} appends reach the stream size limit of {LIMIT}, yet the run went on and the canon has length {v}\nscript: {}", w.sc.script);
            m.report(w, None, "C13", "limit-not-enforced", d);
            return;
        }
        if limit_errors > 0 {
            m.count("c13_limit_enforced");
            m.nontrivial.insert(crate::monitors::hash64(&format!("limE{n}x{k}")));
        }
    }
}

// ---------------- C03: CID stores of produced data, re-hashed independently ----------------
/// Recomputes the content id of every store entry with the forward (hashing) functions and checks every
/// cross-store reference. Deliberately does not call `CidInfo::verify`, the code under test.
pub fn verify_stores(d: &air_interpreter_data::InterpreterData) -> Result<(), String> {
    use air_interpreter_cid::{raw_value_to_json_cid, value_to_json_cid};
    let ci = &d.cid_info;
    for (cid, v) in ci.value_store.iter() {
        // a RawValue serialises transparently as the raw JSON text that was hashed
        let raw = serde_json::to_value(&**v).ok().and_then(|x| x.as_str().map(|s| s.to_string())).ok_or_else(|| "value store: unreadable entry".to_string())?;
        if raw_value_to_json_cid::<air_interpreter_data::RawValue>(raw.as_bytes()).get_inner() != cid.get_inner() {
            return Err(format!("value store: entry {} does not hash to its key", cid.get_inner()));
        }
    }
    for (cid, v) in ci.tetraplet_store.iter() {
        let got = value_to_json_cid(&**v).map_err(|e| format!("{e}"))?;
        if got.get_inner() != cid.get_inner() {
            return Err(format!("tetraplet store: entry {} does not hash to its key", cid.get_inner()));
        }
    }
    for (cid, v) in ci.canon_element_store.iter() {
        let got = value_to_json_cid(&**v).map_err(|e| format!("{e}"))?;
        if got.get_inner() != cid.get_inner() {
            return Err(format!("canon element store: entry {} does not hash to its key", cid.get_inner()));
        }
        if ci.tetraplet_store.get(&v.tetraplet).is_none() || ci.value_store.get(&v.value).is_none() {
            return Err(format!("canon element {}: dangling tetraplet or value reference", cid.get_inner()));
        }
        match &v.provenance {
            air_interpreter_data::Provenance::Literal => {}
            air_interpreter_data::Provenance::ServiceResult { cid: c } => {
                if ci.service_result_store.get(c).is_none() {
                    return Err(format!("canon element {}: dangling service result reference", cid.get_inner()));
                }
            }
            air_interpreter_data::Provenance::Canon { cid: c } => {
                if ci.canon_result_store.get(c).is_none() {
                    return Err(format!("canon element {}: dangling canon reference", cid.get_inner()));
                }
            }
        }
    }
    for (cid, v) in ci.canon_result_store.iter() {
        let got = value_to_json_cid(&**v).map_err(|e| format!("{e}"))?;
        if got.get_inner() != cid.get_inner() {
            return Err(format!("canon result store: entry {} does not hash to its key", cid.get_inner()));
        }
        if ci.tetraplet_store.get(&v.tetraplet).is_none() || v.values.iter().any(|e| ci.canon_element_store.get(e).is_none()) {
            return Err(format!("canon result {}: dangling reference", cid.get_inner()));
        }
    }
    for (cid, v) in ci.service_result_store.iter() {
        let got = value_to_json_cid(&**v).map_err(|e| format!("{e}"))?;
        if got.get_inner() != cid.get_inner() {
            return Err(format!("service result store: entry {} does not hash to its key", cid.get_inner()));
        }
        if ci.tetraplet_store.get(&v.tetraplet_cid).is_none() || ci.value_store.get(&v.value_cid).is_none() {
            return Err(format!("service result {}: dangling reference", cid.get_inner()));
        }
    }
    Ok(())
}
