//! PRNG-driven discrete-event scheduler: decides every delivery, delay, batching and fault.
//! Produces explicit `Ev`s and hands them to `World::apply`; monitors run after every event.

use crate::monitors::Mon;
use crate::rngx::Rng;
use crate::tamper::ForgeOp;
use crate::world::{Ev, MsgId, World};
use std::cmp::Reverse;
use std::collections::{BTreeMap, BTreeSet, BinaryHeap};

#[derive(Clone, Debug, PartialEq, Eq, PartialOrd, Ord)]
enum Action {
    Deliver { msg: MsgId, to: usize },
    Ready { peer: usize, id: u32 },
    Feed { peer: usize },
    Crash { peer: usize, volatile: bool },
    Rollback { peer: usize },
    Torn { peer: usize },
    Stale,
    Heal,
}

pub struct Driver {
    heap: BinaryHeap<Reverse<(u64, u64, Action)>>,
    now: u64,
    seq: u64,
    next_eid: u32,
    ready: Vec<BTreeSet<u32>>,
    feed_scheduled: Vec<bool>,
    prio: Vec<u64>,
    starved: Option<usize>,
    stall: Vec<(u64, u64)>,     // per peer window
    partition: Option<(u64, u64, BTreeSet<usize>, bool)>, // start, end, side A, lossy
    last_fwd: Vec<Vec<MsgId>>,
    pub cap: u32,
    pub byz: Option<usize>,
}

fn rate(w: &World, k: &str) -> u32 {
    w.sc.fault_cfg.get(k).cloned().unwrap_or(0)
}
fn hit(rng: &mut Rng, per_mille: u32) -> bool {
    // always draw, so enabling/disabling a fault kind does not shift other choices of the same history
    (rng.u32() % 1000) < per_mille
}

impl Driver {
    pub fn new(w: &World, rng: &mut Rng) -> Driver {
        let n = w.peers.len();
        let mut d = Driver {
            heap: BinaryHeap::new(),
            now: 0,
            seq: 0,
            next_eid: 0,
            ready: vec![BTreeSet::new(); n],
            feed_scheduled: vec![false; n],
            prio: (0..n).map(|_| 1 + (rng.u32() % 8) as u64).collect(),
            starved: None,
            stall: vec![(0, 0); n],
            partition: None,
            last_fwd: vec![vec![]; n],
            cap: 300,
            byz: None,
        };
        if w.sc.sched == "starve" {
            d.starved = Some(rng.below(w.sc.np));
        }
        if rate(w, "stall") > 0 {
            for p in 0..w.sc.np {
                if hit(rng, rate(w, "stall")) {
                    let s = (rng.u32() % 3000) as u64;
                    d.stall[p] = (s, s + 500 + (rng.u32() % 5000) as u64);
                }
            }
        }
        if rate(w, "partition") > 0 && hit(rng, rate(w, "partition")) {
            let s = (rng.u32() % 3000) as u64;
            let e = s + 500 + (rng.u32() % 6000) as u64;
            let mut side = BTreeSet::new();
            for p in 0..w.sc.np {
                if rng.chance(50) {
                    side.insert(p);
                }
            }
            let lossy = rate(w, "partition_lossy") > 0;
            d.partition = Some((s, e, side, lossy));
            d.push(e, Action::Heal);
        }
        d
    }
    fn push(&mut self, t: u64, a: Action) {
        self.seq += 1;
        self.heap.push(Reverse((t, self.seq, a)));
    }
    fn eid(&mut self) -> u32 {
        self.next_eid += 1;
        self.next_eid
    }
    fn delay(&mut self, w: &World, rng: &mut Rng, peer: usize) -> u64 {
        let base = match w.sc.sched.as_str() {
            "fifo" => {
                if rng.u32() % 100 < 3 {
                    5000 + (rng.u32() % 5000) as u64
                } else {
                    10 + (rng.u32() % 5) as u64
                }
            }
            "pct" => {
                // priority-driven: delay dominated by the destination's priority; change points reshuffle
                if rng.u32() % 100 < 4 {
                    let n = self.prio.len();
                    let i = rng.below(n);
                    self.prio[i] = 1 + (rng.u32() % 8) as u64;
                }
                self.prio[peer] * 100 + (rng.u32() % 20) as u64
            }
            _ => 1 + (rng.u32() % 1000) as u64,
        };
        if self.starved == Some(peer) {
            base + 1_000_000
        } else {
            base
        }
    }

    /// schedule the consequences of run `idx`
    fn after_run(&mut self, w: &mut World, rng: &mut Rng, idx: usize, eid: u32) {
        let (peer, stored, next, new_ids): (usize, bool, Vec<String>, Vec<u32>) = {
            let r = &w.runs[idx];
            (r.peer, r.stored, r.out.next.clone(), r.out.reqs.keys().cloned().collect())
        };
        if !stored {
            return;
        }
        for id in new_ids {
            let d = 1 + (rng.u32() % 300) as u64 + if self.starved == Some(peer) { 1_000_000 } else { 0 };
            self.push(self.now + d, Action::Ready { peer, id });
        }
        self.last_fwd[peer].clear();
        for n in next {
            let Some(to) = w.ids.iter().position(|x| *x == n) else { continue };
            let mid: MsgId = (eid, to as u32);
            if !w.msgs.contains_key(&mid) {
                continue;
            }
            self.last_fwd[peer].push(mid);
            self.enqueue_msg(w, rng, mid, peer, to);
        }
        // stale redelivery / misroute of any earlier honest message
        if hit(rng, rate(w, "stale")) {
            let d = self.delay(w, rng, 0);
            self.push(self.now + d, Action::Stale);
        }
        if hit(rng, rate(w, "crash_durable")) {
            let d = (rng.u32() % 500) as u64;
            self.push(self.now + d, Action::Crash { peer, volatile: false });
        }
        if hit(rng, rate(w, "crash_volatile")) {
            let d = (rng.u32() % 500) as u64;
            self.push(self.now + d, Action::Crash { peer, volatile: true });
        }
        if hit(rng, rate(w, "rollback")) {
            let d = (rng.u32() % 500) as u64;
            self.push(self.now + d, Action::Rollback { peer });
        }
        if hit(rng, rate(w, "torn_store")) {
            let d = (rng.u32() % 500) as u64;
            self.push(self.now + d, Action::Torn { peer });
        }
    }

    fn enqueue_msg(&mut self, w: &mut World, rng: &mut Rng, mid: MsgId, from: usize, to: usize) {
        // drop
        if hit(rng, rate(w, "drop")) {
            let e = self.eid();
            w.apply(e, &Ev::Note { kind: "drop".into(), detail: format!("{mid:?}") });
            return;
        }
        let mut mid = mid;
        // Byzantine sender / corruption in flight: replace by a forged message
        if Some(from) == self.byz || rate(w, "corrupt") > 0 || rate(w, "restamp") > 0 || rate(w, "script_mut") > 0 || rate(w, "equivocate") > 0 || rate(w, "script_undef") > 0 {
            if let Some(ops) = crate::profiles::draw_forge(w, rng, mid, from, self.byz) {
                let e = self.eid();
                let by = if Some(from) == self.byz {
                    self.byz
                } else if ops.iter().any(|o| matches!(o, ForgeOp::OwnRewrite { .. })) {
                    Some(from)
                } else {
                    None
                };
                w.apply(e, &Ev::Forge { src: mid, to, by, ops, payload: None });
                if w.msgs.contains_key(&(e, to as u32)) {
                    mid = (e, to as u32);
                }
            }
        }
        let d = self.delay(w, rng, to);
        self.push(self.now + d, Action::Deliver { msg: mid, to });
        if hit(rng, rate(w, "dup")) {
            let n = 1 + rng.below(3);
            for _ in 0..n {
                let d2 = d + self.delay(w, rng, to);
                let to2 = if hit(rng, rate(w, "misroute")) { rng.below(w.sc.np) } else { to };
                self.push(self.now + d2, Action::Deliver { msg: mid, to: to2 });
            }
        }
    }

    fn blocked_until(&self, from: Option<usize>, to: usize) -> Option<(u64, bool)> {
        let (s, e) = self.stall[to];
        if self.now >= s && self.now < e {
            return Some((e, false));
        }
        if let (Some((s, e, side, lossy)), Some(from)) = (&self.partition, from) {
            if self.now >= *s && self.now < *e && side.contains(&from) != side.contains(&to) {
                return Some((*e, *lossy));
            }
        }
        None
    }

    fn pick_feed(&mut self, w: &World, rng: &mut Rng, peer: usize, with_msg: bool) -> Vec<u32> {
        let avail: Vec<u32> = self.ready[peer].iter().filter(|id| w.peers[peer].pending.contains_key(id)).cloned().collect();
        if avail.is_empty() {
            return vec![];
        }
        let policy = w.sc.host_feed.as_str();
        let mut ids: Vec<u32> = match policy {
            "one" => vec![avail[rng.below(avail.len())]],
            "all" => avail.clone(),
            _ => {
                let mut v = avail.clone();
                rng.shuffle(&mut v);
                let k = 1 + rng.below(v.len());
                v.truncate(k);
                v
            }
        };
        if with_msg && policy != "withmsg" && !rng.chance(20) {
            ids.clear();
        }
        ids.sort();
        for id in &ids {
            self.ready[peer].remove(id);
        }
        ids
    }

    pub fn run(&mut self, w: &mut World, rng: &mut Rng, mon: &mut Mon) {
        // the init peer starts the particle
        let e = self.eid();
        let ev = Ev::Run { peer: 0, msg: None, feed: vec![], lose: false, bogus: vec![] };
        if let Some(idx) = w.apply(e, &ev) {
            mon.after_run(w, idx);
            self.after_run(w, rng, idx, e);
        }
        while let Some(Reverse((t, _, a))) = self.heap.pop() {
            // bounded runs: event cap, and a size cap so that one pathological history cannot eat the batch's budget
            let too_big = w.runs.last().map(|r| r.out.data.len() > 400_000).unwrap_or(false);
            if w.stats.events as u32 >= self.cap || mon.stop || too_big {
                mon.capped = self.heap.len() as u32 + 1;
                break;
            }
            self.now = self.now.max(t);
            match a {
                Action::Heal => {
                    let e = self.eid();
                    w.apply(e, &Ev::Note { kind: "partition_heal".into(), detail: String::new() });
                }
                Action::Ready { peer, id } => {
                    self.ready[peer].insert(id);
                    if !self.feed_scheduled[peer] {
                        self.feed_scheduled[peer] = true;
                        let d = 1 + (rng.u32() % 50) as u64;
                        self.push(self.now + d, Action::Feed { peer });
                    }
                }
                Action::Feed { peer } => {
                    self.feed_scheduled[peer] = false;
                    if let Some((until, _)) = self.blocked_until(None, peer) {
                        self.feed_scheduled[peer] = true;
                        self.push(until + 1, Action::Feed { peer });
                        let e = self.eid();
                        w.apply(e, &Ev::Note { kind: "stall_postponed".into(), detail: format!("feed {peer}") });
                        continue;
                    }
                    let feed = self.pick_feed(w, rng, peer, false);
                    let mut bogus = vec![];
                    if hit(rng, rate(w, "bogus_ids")) {
                        bogus = crate::profiles::draw_bogus(w, rng, peer);
                        // a second answer for an id fed in this very run, under another spelling of the same number
                        // (a host that pads ids, a duplicated result): it must stay a different, unprocessed id
                        if !feed.is_empty() && rng.chance(30) {
                            let id = feed[rng.below(feed.len())];
                            let alias = match rng.below(4) {
                                0 => format!("0{id}"),
                                1 => format!(" {id}"),
                                2 => format!("{id} "),
                                _ => format!("+{id}"),
                            };
                            bogus.push((alias, 0, serde_json::json!({"f": "alias", "a": [id]}).to_string()));
                        }
                    }
                    if hit(rng, rate(w, "raw_results")) {
                        bogus.push(("__RAW__".into(), 0, crate::tamper::hex(&crate::fuzz::random_call_results(rng))));
                    }
                    if feed.is_empty() && bogus.is_empty() {
                        continue;
                    }
                    let lose = hit(rng, rate(w, "lose_run"));
                    let e = self.eid();
                    if lose {
                        for id in &feed {
                            self.ready[peer].insert(*id);
                        }
                    }
                    let ev = Ev::Run { peer, msg: None, feed, lose, bogus };
                    if let Some(idx) = w.apply(e, &ev) {
                        mon.after_run(w, idx);
                        self.after_run(w, rng, idx, e);
                    }
                    if !self.ready[peer].is_empty() && !self.feed_scheduled[peer] {
                        self.feed_scheduled[peer] = true;
                        let d = 1 + (rng.u32() % 100) as u64;
                        self.push(self.now + d, Action::Feed { peer });
                    }
                }
                Action::Deliver { msg, to } => {
                    let from = w.msgs.get(&msg).map(|m| m.from);
                    if let Some((until, lossy)) = self.blocked_until(from, to) {
                        let e = self.eid();
                        if lossy {
                            w.apply(e, &Ev::Note { kind: "partition_drop".into(), detail: format!("{msg:?}->{to}") });
                        } else {
                            w.apply(e, &Ev::Note { kind: "postponed".into(), detail: format!("{msg:?}->{to}") });
                            let d = 1 + (rng.u32() % 100) as u64;
                            self.push(until + d, Action::Deliver { msg, to });
                        }
                        continue;
                    }
                    let feed = self.pick_feed(w, rng, to, true);
                    let lose = hit(rng, rate(w, "lose_run"));
                    if lose {
                        for id in &feed {
                            self.ready[to].insert(*id);
                        }
                        // durable transport: the trigger is redelivered later
                        let d = self.delay(w, rng, to);
                        self.push(self.now + d, Action::Deliver { msg, to });
                    }
                    let e = self.eid();
                    let ev = Ev::Run { peer: to, msg: Some(msg), feed, lose, bogus: vec![] };
                    if let Some(idx) = w.apply(e, &ev) {
                        mon.after_run(w, idx);
                        self.after_run(w, rng, idx, e);
                    }
                    if !self.ready[to].is_empty() && !self.feed_scheduled[to] {
                        self.feed_scheduled[to] = true;
                        let d = 1 + (rng.u32() % 100) as u64;
                        self.push(self.now + d, Action::Feed { peer: to });
                    }
                }
                Action::Stale => {
                    // any earlier honest message of this particle to any participating peer
                    let honest: Vec<MsgId> = w.msgs.iter().filter(|(_, m)| !m.forged).map(|(k, _)| *k).collect();
                    if honest.is_empty() {
                        continue;
                    }
                    let m = honest[rng.below(honest.len())];
                    let to = rng.below(w.sc.np);
                    let e = self.eid();
                    w.apply(e, &Ev::Note { kind: "stale_redelivery".into(), detail: format!("{m:?}->{to}") });
                    let d = self.delay(w, rng, to);
                    self.push(self.now + d, Action::Deliver { msg: m, to });
                }
                Action::Crash { peer, volatile } => {
                    let e = self.eid();
                    w.apply(e, &Ev::Crash { peer, volatile });
                    if volatile {
                        self.ready[peer].clear();
                    } else {
                        // durable outbox: ready-but-unfed results are regenerated, forwards re-sent
                        let pend: Vec<u32> = w.peers[peer].pending.keys().cloned().collect();
                        self.ready[peer].clear();
                        for id in pend {
                            let d = 1 + (rng.u32() % 300) as u64;
                            self.push(self.now + d, Action::Ready { peer, id });
                        }
                        let fw = self.last_fwd[peer].clone();
                        for mid in fw {
                            let to = mid.1 as usize;
                            let d = self.delay(w, rng, to);
                            self.push(self.now + d, Action::Deliver { msg: mid, to });
                        }
                    }
                }
                Action::Rollback { peer } => {
                    let k = 1 + rng.below(3);
                    let e = self.eid();
                    w.apply(e, &Ev::Rollback { peer, k });
                }
                Action::Torn { peer } => {
                    let len = w.peers[peer].store.len() as u32;
                    if len > 0 {
                        let inner = rng.chance(50);
                        // short and torn writes (a prefix survives, or the tail is zeroes / stale), lost sectors, bit rot
                        let op = match rng.below(6) {
                            0 | 1 => ForgeOp::Truncate { keep: rng.u32() % len, inner },
                            2 | 3 => ForgeOp::ZeroWindow { off: rng.u32() % len, len: 1 + rng.u32() % 512, inner },
                            4 => ForgeOp::FlipBit { off: rng.u32() % len, bit: (rng.u32() % 8) as u8, inner },
                            _ => ForgeOp::Extend { n: 1 + rng.u32() % 64, byte: 0, inner },
                        };
                        let e = self.eid();
                        w.apply(e, &Ev::Torn { peer, op, payload: None });
                    }
                }
            }
        }
        w.stats.sim_time = self.now;
        let _: BTreeMap<u8, u8> = BTreeMap::new();
        let _ = ForgeOp::Reattribute;
    }
}
