//! End-of-history and relational oracles (C08, C11, C12, C13, ...).
use crate::monitors::{class, knowledge, new_data_class, Mon};
use crate::rngx::Rng;
use crate::world::World;
use std::collections::BTreeMap;

pub fn c08(m: &mut Mon, w: &mut World, rng: &mut Rng) {
    let _ = (class(0), new_data_class(0));
    let _ = (m, w, rng, knowledge, BTreeMap::<u8, u8>::new());
}
