//! Relational, end-of-history and shadow-twin oracles: C06 (bogus twin), C08, C11, C12, C13, C20, C21, C22.
use crate::analysis::Analysis;
use crate::interp::{self, Limits};
use crate::monitors::{class, knowledge, new_data_class, Mon};
use crate::rngx::{mix3, Rng};
use crate::world::World;
use air_interpreter_data::*;
use std::collections::{BTreeMap, BTreeSet};

fn hash64(s: &str) -> u64 {
    crate::rngx::str_hash(s)
}
fn run_rng(w: &World, eid: u32, tag: u64) -> Rng {
    Rng::new(mix3(w.sc.seed ^ w.sc.hist.rotate_left(17), eid as u64, tag))
}

pub fn erased_trace(d: &InterpreterData) -> Vec<String> {
    d.trace
        .iter()
        .map(|s| match s {
            ExecutedState::Call(CallResult::RequestSentBy(_)) => "call:sent".to_string(),
            ExecutedState::Canon(CanonResult::RequestSentBy(_)) => "canon:sent".to_string(),
            x => format!("{x}"),
        })
        .collect()
}

fn outcome_json(o: &interp::Outcome) -> serde_json::Value {
    let dj = if o.data.is_empty() {
        serde_json::Value::Null
    } else {
        match interp::decode(&o.data) {
            Ok(d) => interp::data_json(&d.data),
            Err(e) => serde_json::Value::String(format!("undecodable: {e}")),
        }
    };
    serde_json::json!({"code": o.code, "msg": o.msg, "data": dj, "next": o.next, "reqs": format!("{:?}", o.reqs), "panic": o.panic})
}

// ---------------- C20: in-process re-execution (different per-map hash keys) ----------------
pub fn c20(m: &mut Mon, w: &mut World, idx: usize) {
    let (peer, prev, cur, results, script, particle) = {
        let r = &w.runs[idx];
        (r.peer, r.prev.clone(), r.cur.clone(), r.results.clone(), r.script.clone(), r.particle.clone())
    };
    let lim = w.limits_of(peer);
    let a = outcome_json(&w.runs[idx].out);
    // every re-execution builds its hash maps with fresh keys; a replay tries more of them
    let tries = if std::env::var("VERIF_REPLAYING").is_ok() { 24 } else { 2 };
    let mut b = a.clone();
    for _ in 0..tries {
        let o2 = w.shadow_ex(peer, &prev, &cur, &results, Some(&lim), Some(&script), Some(&particle));
        b = outcome_json(&o2);
        if a != b {
            break;
        }
    }
    if a != b {
        let mut what = vec![];
        for k in ["code", "msg", "data", "next", "reqs", "panic"] {
            if a[k] != b[k] {
                what.push(format!("{k}: {} VS {}", a[k].to_string().chars().take(300).collect::<String>(), b[k].to_string().chars().take(300).collect::<String>()));
            }
        }
        let d = format!("peer {peer} eid {}: re-execution on identical inputs differs in {}", w.runs[idx].eid, what.join(" ; "));
        // classify: only the message differs, and only in printed memory addresses
        let only_msg = ["code", "data", "next", "reqs", "panic"].iter().all(|k| a[*k] == b[*k]);
        // data whose damaged store entry is also the one the trace refers to: the CID-store error (8) or the trace-CID-
        // not-found error (9) is reported, whichever check meets its entry first
        let verification_codes = |v: &serde_json::Value| matches!(v["code"].as_i64(), Some(8) | Some(9));
        let only_which_verification_error = ["data", "next", "reqs", "panic"].iter().all(|k| a[*k] == b[*k]) && verification_codes(&a) && verification_codes(&b);
        let masked_equal = crate::monitors::mask_addresses(a["msg"].as_str().unwrap_or("")) == crate::monitors::mask_addresses(b["msg"].as_str().unwrap_or(""));
        let both_cid_store = a["code"].as_i64() == Some(crate::monitors::CID_STORE_VERIFICATION_CODE);
        let tag = if only_msg && masked_equal {
            "message-contains-memory-addresses"
        } else if (only_msg && both_cid_store) || only_which_verification_error {
            "which-cid-store-error-is-reported"
        } else {
            "reexecution-differs"
        };
        let src = if a["msg"].as_str().unwrap_or("").contains("ArchiveError") { " [address source: rkyv ArchiveError]" } else { " [address source: other]" };
        let d = if tag == "message-contains-memory-addresses" {
            format!("{d}{src}")
        } else if tag == "which-cid-store-error-is-reported" {
            format!("{d} [both outcomes are CID store verification errors, code {}]", crate::monitors::CID_STORE_VERIFICATION_CODE)
        } else {
            d
        };
        m.report(w, Some(idx), "C20", tag, d);
    } else if w.runs[idx].out.reqs.len() + w.runs[idx].out.next.len() >= 2 || class(w.runs[idx].out.code) == 'F' {
        m.nontrivial.insert(hash64(&a.to_string()));
    }
}

fn state_cid_of(s: &ExecutedState) -> Option<String> {
    match s {
        ExecutedState::Call(CallResult::Executed(ValueRef::Scalar(c))) => Some(c.get_inner().to_string()),
        ExecutedState::Call(CallResult::Executed(ValueRef::Stream { cid, .. })) => Some(cid.get_inner().to_string()),
        ExecutedState::Call(CallResult::Executed(ValueRef::Unused(c))) => Some(c.get_inner().to_string()),
        ExecutedState::Call(CallResult::Failed(c)) => Some(c.get_inner().to_string()),
        _ => None,
    }
}

/// A merge that dies on a signature mismatch for peer P in a script whose stream-fold last instruction holds
/// calls addressed to P is the downstream face of finding F22 (P's last-instruction result was dropped under
/// another generation grouping while P's signature still covers it); everything else is a plain merge failure.
pub fn merge_fail_tag(m: &Mon, w: &World, msg: &str) -> &'static str {
    if let Some(rest) = msg.split("signature mismatch for \"").nth(1) {
        let peer = rest.split('"').next().unwrap_or("");
        let hit = m.analysis.calls.values().any(|c| {
            c.multi
                && match &c.peer {
                    crate::script::PeerRef::Lit(i) => w.ids.get(*i).map(|p| p == peer).unwrap_or(false),
                    crate::script::PeerRef::Init => w.ids[0] == peer,
                    _ => false,
                }
        });
        if hit {
            return "merge-failed-last-instruction";
        }
    }
    "merge-failed"
}

// ---------------- C06: bogus ids against a twin without them ----------------
pub fn c06_bogus(m: &mut Mon, w: &mut World, idx: usize) {
    let (peer, prev, cur, results, bogus, code) = {
        let r = &w.runs[idx];
        (r.peer, r.prev.clone(), r.cur.clone(), r.results.clone(), r.bogus.clone(), r.out.code)
    };
    if bogus.is_empty() {
        return;
    }
    // "bogus" is judged against the data, not against the host's book-keeping: a result fed in a run that failed
    // with a P/U code (previous data returned) was not consumed, its call is still pending in the trace
    {
        let me = w.ids[peer].clone();
        let dprev = interp::dec(&prev);
        let still_pending = dprev.trace.iter().any(|s| match s {
            ExecutedState::Call(CallResult::RequestSentBy(Sender::PeerIdWithCallId { peer_id, call_id })) => **peer_id == me && bogus.contains(&call_id.to_string()),
            _ => false,
        });
        if still_pending {
            m.count("c06_bogus_id_still_pending_in_data");
            return;
        }
    }
    let mut twin_res = results.clone();
    for b in &bogus {
        twin_res.remove(b);
    }
    let lim = w.limits_of(peer);
    let t = w.shadow_ex(peer, &prev, &cur, &twin_res, Some(&lim), None, None);
    let r = &w.runs[idx];
    let same = |a: &interp::Outcome, b: &interp::Outcome| -> bool {
        interp::dec(&a.data).trace == interp::dec(&b.data).trace && a.reqs == b.reqs && a.next == b.next
    };
    let eid = r.eid;
    match class(t.code) {
        '0' => {
            if code != 30000 {
                let d = format!("peer {peer} eid {eid}: results under ids {bogus:?} match no pending call; twin without them returns 0, real run returns {code} ({})", r.out.msg.chars().take(200).collect::<String>());
                m.report(w, Some(idx), "C06", "bogus-not-reported", d);
                return;
            }
            if !same(&r.out, &t) {
                let d = format!(
                    "peer {peer} eid {eid}: bogus ids {bogus:?} changed the outcome\nreal: {}\ntwin: {}",
                    interp::show_trace(&interp::dec(&r.out.data)),
                    interp::show_trace(&interp::dec(&t.data))
                );
                m.report(w, Some(idx), "C06", "bogus-had-effect", d);
                return;
            }
            for b in &bogus {
                if !r.out.msg.contains(b.as_str()) {
                    let d = format!("peer {peer} eid {eid}: bogus id {b} not named among the unprocessed results: {}", r.out.msg.chars().take(300).collect::<String>());
                    m.report(w, Some(idx), "C06", "bogus-silently-dropped", d);
                    return;
                }
            }
            m.nontrivial.insert(hash64(&format!("bogus{peer}{bogus:?}{}", r.prev.len())));
        }
        'C' => {
            if code != t.code || !same(&r.out, &t) {
                let d = format!("peer {peer} eid {eid}: twin ends with catchable {} but real run gives {code} or a different outcome", t.code);
                m.report(w, Some(idx), "C06", "bogus-had-effect", d);
            }
        }
        _ => {}
    }
}

// ---------------- C08 ----------------
pub fn c08(m: &mut Mon, w: &mut World, _rng: &mut Rng) {
    if w.sc.profile != "honest" && w.sc.profile != "lossy" {
        return;
    }
    if w.runs.iter().any(|r| r.out.panic.is_some() || matches!(class(r.out.code), 'P' | 'U')) {
        return; // C04's business
    }
    let mut rng = run_rng(w, 0, 0xC08);
    let mut blobs: Vec<Vec<u8>> = (0..w.sc.np).map(|p| (*w.peers[p].store).clone()).filter(|b| !b.is_empty()).collect();
    let inter: Vec<usize> = (0..w.runs.len()).filter(|i| w.runs[*i].stored && new_data_class(w.runs[*i].out.code) && !w.runs[*i].out.data.is_empty()).collect();
    for _ in 0..4 {
        if !inter.is_empty() && blobs.len() < 8 {
            let i = inter[rng.below(inter.len())];
            let b = w.runs[i].out.data.clone();
            if !blobs.contains(&b) {
                blobs.push(b);
            }
        }
    }
    if blobs.len() < 2 {
        return;
    }
    let empty = BTreeMap::new();
    let obs = w.obs();
    let has_streams = w.sc.script.contains('$') || w.sc.script.contains("%m") || w.sc.script.contains("#");
    let mut merge_all = |w: &mut World, at: usize, order: &[usize], start: Vec<u8>| -> Result<Vec<u8>, String> {
        let mut acc = start;
        for &i in order {
            let o = w.shadow(at, &acc, &blobs[i], &empty);
            if o.panic.is_some() || !new_data_class(o.code) {
                return Err(format!(
                    "merge step failed: code {} {}\nacc: {}\nblob: {}",
                    o.code,
                    o.msg.chars().take(400).collect::<String>(),
                    interp::show_trace(&interp::dec(&acc)),
                    interp::show_trace(&interp::dec(&blobs[i]))
                ));
            }
            acc = o.data;
        }
        Ok(acc)
    };
    let mut results: Vec<(String, BTreeMap<String, usize>, Vec<String>)> = vec![];
    let n = blobs.len();
    // small sets exhaustively (all n! orders for n <= 3, and for n = 4 in 40% of the histories), else 3 orders
    fn all_perms(n: usize) -> Vec<Vec<usize>> {
        fn rec(cur: &mut Vec<usize>, used: &mut Vec<bool>, n: usize, out: &mut Vec<Vec<usize>>) {
            if cur.len() == n {
                out.push(cur.clone());
                return;
            }
            for i in 0..n {
                if !used[i] {
                    used[i] = true;
                    cur.push(i);
                    rec(cur, used, n, out);
                    cur.pop();
                    used[i] = false;
                }
            }
        }
        let mut out = vec![];
        rec(&mut vec![], &mut vec![false; n], n, &mut out);
        out
    }
    let exhaustive = n <= 3 || (n == 4 && rng.chance(40));
    let orders: Vec<Vec<usize>> = if exhaustive {
        m.count(&format!("c08_exhaustive_permutations_n{n}"));
        all_perms(n)
    } else {
        let mut v = vec![(0..n).collect::<Vec<usize>>()];
        for _ in 0..2 {
            let mut o: Vec<usize> = (0..n).collect();
            rng.shuffle(&mut o);
            v.push(o);
        }
        v
    };
    for order in orders {
        match merge_all(w, obs, &order, vec![]) {
            Ok(acc) => {
                let d = interp::dec(&acc);
                results.push((format!("perm{order:?}"), knowledge(&d), erased_trace(&d)));
            }
            Err(e) => {
                let tag = merge_fail_tag(m, w, &e);
                m.report(w, None, "C08", tag, format!("order {order:?}: {e}"));
                return;
            }
        }
    }
    // two-level grouping: two observers merge halves, then a third merges both
    {
        let mut order: Vec<usize> = (0..n).collect();
        rng.shuffle(&mut order);
        let cut = 1 + rng.below(n - 1);
        let a = merge_all(w, obs, &order[..cut], vec![]);
        let b = merge_all(w, obs + 1, &order[cut..], vec![]);
        match (a, b) {
            (Ok(a), Ok(b)) => {
                let o1 = w.shadow(obs + 2, &[], &a, &empty);
                let o2 = if new_data_class(o1.code) { Some(w.shadow(obs + 2, &o1.data, &b, &empty)) } else { None };
                match o2 {
                    Some(o2) if new_data_class(o2.code) && o2.panic.is_none() => {
                        let d = interp::dec(&o2.data);
                        results.push((format!("grouped{order:?}/{cut}"), knowledge(&d), erased_trace(&d)));
                    }
                    _ => {
                        let tag = merge_fail_tag(m, w, &o1.msg);
                        m.report(w, None, "C08", tag, format!("grouped merge {order:?} cut {cut} failed at the top level: {}", o1.msg));
                        return;
                    }
                }
            }
            (Err(e), _) | (_, Err(e)) => {
                let tag = merge_fail_tag(m, w, &e);
                m.report(w, None, "C08", tag, format!("grouped {order:?}/{cut}: {e}"));
                return;
            }
        }
    }
    let (n0, k0, t0) = results[0].clone();
    // which call produced a result CID (for classification of differences)
    let mut fn_of: BTreeMap<String, String> = BTreeMap::new();
    for b in &blobs {
        let d = interp::dec(b);
        for (cid, agg) in d.cid_info.service_result_store.iter() {
            if let Some(t) = d.cid_info.tetraplet_store.get(&agg.tetraplet_cid) {
                fn_of.insert(cid.get_inner().to_string(), t.function_name.clone());
            }
        }
        // `unused` results are recorded by their value's content id; the service table writes the function into the value
        for (cid, v) in d.cid_info.value_store.iter() {
            if let Some(f) = serde_json::from_str::<serde_json::Value>(&v.get_value().to_string()).ok().and_then(|j| j.get("f").and_then(|x| x.as_str()).map(|s| s.to_string())) {
                fn_of.entry(cid.get_inner().to_string()).or_insert(f);
            }
        }
    }
    // results nobody binds (`unused`) are recorded by their value's content id and the value is not stored: resolve
    // them through the results the service stubs handed out
    for p in w.peers.iter() {
        for (rq, res, _) in p.consumed.values() {
            let cid = air_interpreter_cid::raw_value_to_json_cid::<air_interpreter_data::RawValue>(res.1.as_bytes());
            fn_of.entry(cid.get_inner().to_string()).or_insert_with(|| rq.function.clone());
        }
    }
    for (nm, k, t) in results.iter().skip(1) {
        if *k != k0 {
            let diff: Vec<String> = k0.keys().chain(k.keys()).filter(|c| k0.get(*c) != k.get(*c)).cloned().collect::<BTreeSet<_>>().into_iter().collect();
            let fns: Vec<String> = diff.iter().map(|c| fn_of.get(&c[1..]).cloned().unwrap_or_else(|| "?".into())).collect();
            // calls in the last instruction of a stream fold run once per generation group, and the grouping of
            // values into generations depends on the arrival order
            let all_last_instr = !diff.is_empty() && fns.iter().all(|f| m.analysis.calls.get(f).map(|c| c.multi).unwrap_or(false));
            let tag = if all_last_instr { "knowledge-differs-last-instruction" } else { "knowledge-differs" };
            let d = format!("knowledge differs between {n0} and {nm}: {diff:?} (results of {fns:?})\nA: {t0:?}\nB: {t:?}\nscript: {}", w.sc.script);
            m.report(w, None, "C08", tag, d);
            return;
        }
        if !has_streams && *t != t0 {
            let d = format!("stream-free script: merged traces differ between {n0} and {nm}\nA: {t0:?}\nB: {t:?}\nscript: {}", w.sc.script);
            m.report(w, None, "C08", "trace-differs", d);
            return;
        }
    }
    // at one participating peer: merging everything else must not fail and must not know less
    let p = rng.below(w.sc.np);
    let order: Vec<usize> = (0..n).collect();
    let start = (*w.peers[p].store).clone();
    match merge_all(w, p, &order, start) {
        Ok(acc) => {
            let kp = knowledge(&interp::dec(&acc));
            for (c, cnt) in &k0 {
                if c.starts_with('C') {
                    continue;
                }
                if kp.get(c).cloned().unwrap_or(0) < *cnt {
                    let f = fn_of.get(&c[1..]).cloned().unwrap_or_else(|| "?".into());
                    let tag = if m.analysis.calls.get(&f).map(|ci| ci.multi).unwrap_or(false) { "knowledge-differs-last-instruction" } else { "knowledge-differs" };
                    let d = format!("participant {p} merging all data knows less than the observer: missing {c} (result of {f})");
                    m.report(w, None, "C08", tag, d);
                    return;
                }
            }
        }
        Err(e) => {
            let tag = merge_fail_tag(m, w, &e);
            m.report(w, None, "C08", tag, format!("at participant {p}: {e}"));
            return;
        }
    }
    if k0.len() >= 2 && n >= 3 {
        m.nontrivial.insert(hash64(&format!("{:?}{n}", k0.keys().collect::<Vec<_>>())));
    }
}

// ---------------- C12 ----------------
/// (generation, cid) of call-produced values per single-instance stream
fn stream_entries(an: &Analysis, d: &InterpreterData) -> BTreeMap<String, Vec<(u32, String)>> {
    let mut out: BTreeMap<String, Vec<(u32, String)>> = BTreeMap::new();
    for s in d.trace.iter() {
        if let ExecutedState::Call(CallResult::Executed(ValueRef::Stream { cid, generation })) = s {
            if let Some(agg) = d.cid_info.service_result_store.get(cid) {
                if let Some(t) = d.cid_info.tetraplet_store.get(&agg.tetraplet_cid) {
                    if let Some(c) = an.calls.get(&t.function_name) {
                        if let Some(st) = &c.out_stream {
                            if an.single_instance_streams.contains(st) {
                                let g: usize = (*generation).into();
                                out.entry(st.clone()).or_default().push((g as u32, cid.get_inner().to_string()));
                            }
                        }
                    }
                }
            }
        }
    }
    out
}
pub fn c12(m: &mut Mon, w: &mut World, idx: usize) {
    let an = m.analysis.clone();
    let r = &w.runs[idx];
    let a = stream_entries(&an, &interp::dec(&r.prev));
    let b = stream_entries(&an, &interp::dec(&r.cur));
    let c = stream_entries(&an, &m.decoded(w, idx));
    let mut fail: Option<String> = None;
    let mut nontrivial = false;
    for (st, cv) in &c {
        let gc: BTreeMap<&String, u32> = cv.iter().map(|(g, c)| (c, *g)).collect();
        if gc.len() != cv.len() {
            continue; // duplicated content ids (cannot be stated per value)
        }
        let av = a.get(st).cloned().unwrap_or_default();
        let bv = b.get(st).cloned().unwrap_or_default();
        let ga: BTreeMap<&String, u32> = av.iter().map(|(g, c)| (c, *g)).collect();
        let gb: BTreeMap<&String, u32> = bv.iter().map(|(g, c)| (c, *g)).collect();
        // 1. no inversion among values already in the previous data
        for (x, gx) in &ga {
            for (y, gy) in &ga {
                if gx < gy {
                    if let (Some(ox), Some(oy)) = (gc.get(x), gc.get(y)) {
                        if ox > oy {
                            fail = Some(format!("stream {st}: values {x} (gen {gx}) and {y} (gen {gy}) of the previous data are inverted in the output (gens {ox} > {oy})"));
                        }
                    }
                }
            }
        }
        // 2. prev values before values that came only with the current data, those before new ones
        for (x, _) in &ga {
            for (y, _) in &gb {
                if ga.contains_key(y) {
                    continue;
                }
                if let (Some(ox), Some(oy)) = (gc.get(x), gc.get(y)) {
                    nontrivial = true;
                    if ox > oy {
                        fail = Some(format!("stream {st}: value {y} that came only with the current data (gen {oy}) is numbered before previous-data value {x} (gen {ox})"));
                    }
                }
            }
        }
        for (z, oz) in &gc {
            if ga.contains_key(z) || gb.contains_key(z) {
                continue;
            }
            for (y, oy) in &gc {
                if (ga.contains_key(y) || gb.contains_key(y)) && oy > oz {
                    fail = Some(format!("stream {st}: value {z} produced in this run (gen {oz}) is numbered before merged value {y} (gen {oy})"));
                }
            }
        }
    }
    if let Some(f) = fail {
        let r = &w.runs[idx];
        let d = format!(
            "peer {} eid {}: {f}\nprev: {}\ncur: {}\nout: {}",
            r.peer,
            r.eid,
            interp::show_trace(&interp::dec(&r.prev)),
            interp::show_trace(&interp::dec(&r.cur)),
            interp::show_trace(&m.decoded(w, idx))
        );
        m.report(w, Some(idx), "C12", "generation-order", d);
    } else if nontrivial {
        m.nontrivial.insert(hash64(&format!("{:?}", c)));
    }
}

// ---------------- C21 ----------------
fn parse_ver(v: &semver::Version) -> (u64, u64, u64, bool) {
    (v.major, v.minor, v.patch, !v.pre.is_empty())
}
/// independent precedence comparison: true iff a < b (build metadata ignored; a pre-release precedes its release)
fn ver_lt(a: &semver::Version, b: &semver::Version) -> bool {
    let (a1, a2, a3, apre) = parse_ver(a);
    let (b1, b2, b3, bpre) = parse_ver(b);
    if (a1, a2, a3) != (b1, b2, b3) {
        return (a1, a2, a3) < (b1, b2, b3);
    }
    if apre && !bpre {
        return true;
    }
    if apre && bpre {
        return a.pre < b.pre;
    }
    false
}
pub fn c21(m: &mut Mon, w: &mut World, idx: usize) {
    let r = &w.runs[idx];
    let is_ver_err = r.out.msg.contains("version of interpreter, but minimum");
    if r.cur.is_empty() {
        // empty current data is treated as empty data: never a version or decoding error
        if is_ver_err || r.out.msg.contains("deserialize") && class(r.out.code) == 'P' && !r.results.is_empty() && false {
            let d = format!("peer {} eid {}: empty current data rejected: {}", r.peer, r.eid, r.out.msg);
            m.report(w, Some(idx), "C21", "empty-current-rejected", d);
        }
        return;
    }
    let Ok(env) = InterpreterDataEnvelope::try_from_slice(&r.cur) else { return };
    let v = env.versions.interpreter_version.clone();
    let min = air::min_supported_version().clone();
    let expect_reject = ver_lt(&v, &min);
    let eid = r.eid;
    let peer = r.peer;
    if expect_reject {
        if !is_ver_err || class(r.out.code) != 'P' {
            let d = format!("peer {peer} eid {eid}: current data stamped {v} (< minimum {min}) was not rejected as unsupported: code {} {}", r.out.code, r.out.msg.chars().take(200).collect::<String>());
            m.report(w, Some(idx), "C21", "old-version-accepted", d);
            return;
        }
        if r.out.data != **r.prev || !r.out.next.is_empty() || !r.out.reqs.is_empty() {
            let d = format!("peer {peer} eid {eid}: version rejection did not return the previous data untouched");
            m.report(w, Some(idx), "C21", "reject-not-clean", d);
            return;
        }
        m.nontrivial.insert(hash64(&format!("rej{v}|{}|{}", peer, w.runs[idx].prev.len())));
    } else {
        if is_ver_err {
            let d = format!("peer {peer} eid {eid}: current data stamped {v} (>= minimum {min}) was rejected for its version: {}", r.out.msg);
            m.report(w, Some(idx), "C21", "supported-version-rejected", d);
            return;
        }
        m.nontrivial.insert(hash64(&format!("acc{v}|{}|{}", peer, w.runs[idx].prev.len())));
    }
}

// ---------------- C22 ----------------
fn size_kinds(msg: &str) -> Option<&'static str> {
    if msg.contains("air size:") {
        Some("air")
    } else if msg.contains("particle size:") {
        Some("particle")
    } else if msg.contains("Call result size") {
        Some("call_result")
    } else {
        None
    }
}
fn check_limits_case(m: &mut Mon, w: &mut World, idx: usize, lim: &Limits, real: Option<&interp::Outcome>, twin: &interp::Outcome) -> bool {
    let (peer, prev, cur, results, script) = {
        let r = &w.runs[idx];
        (r.peer, r.prev.clone(), r.cur.clone(), r.results.clone(), r.script.clone())
    };
    let o = match real {
        Some(o) => o.clone(),
        None => w.shadow_ex(peer, &prev, &cur, &results, Some(lim), None, None),
    };
    let air_over = script.len() as u64 > lim.air;
    let part_over = cur.len() as u64 > lim.particle;
    let cr_over = results.values().any(|r| r.1.len() as u64 > lim.call_result);
    let eid = w.runs[idx].eid;
    let ctx = format!("peer {peer} eid {eid} limits {lim:?} sizes air={} particle={} results={:?}", script.len(), cur.len(), results.values().map(|r| r.1.len()).collect::<Vec<_>>());
    if lim.hard && (air_over || part_over || cr_over) {
        let kind = size_kinds(&o.msg);
        let ok_kind = match kind {
            Some("air") => air_over,
            Some("particle") => part_over,
            Some("call_result") => cr_over,
            _ => false,
        };
        if class(o.code) != 'P' || !ok_kind {
            m.report(w, Some(idx), "C22", "hard-limit-not-enforced", format!("{ctx}: expected a matching size error, got code {} {}", o.code, o.msg.chars().take(200).collect::<String>()));
            return false;
        }
        if o.data != *prev || !o.next.is_empty() || !o.reqs.is_empty() {
            m.report(w, Some(idx), "C22", "hard-reject-not-clean", format!("{ctx}: rejection did not return the previous data untouched"));
            return false;
        }
        m.nontrivial.insert(hash64(&format!("hard{kind:?}{air_over}{part_over}{cr_over}|{:?}|{}|{}", lim, script.len(), cur.len())));
        return true;
    }
    // soft mode, or hard mode with nothing exceeded: exact flags, otherwise identical to the unlimited twin
    let expect_flags = if lim.hard { (false, false, false) } else { (air_over, part_over, cr_over) };
    if size_kinds(&o.msg).is_some() && class(o.code) == 'P' {
        m.report(w, Some(idx), "C22", "limit-triggered-wrongly", format!("{ctx}: rejected with {} although no hard limit is exceeded", o.msg.chars().take(200).collect::<String>()));
        return false;
    }
    if o.flags != expect_flags {
        m.report(w, Some(idx), "C22", "wrong-flags", format!("{ctx}: flags {:?} expected {:?}", o.flags, expect_flags));
        return false;
    }
    let a = outcome_json(&o);
    let b = outcome_json(twin);
    if a != b {
        m.report(w, Some(idx), "C22", "soft-mode-changed-behaviour", format!("{ctx}: outcome differs from the unlimited run: code {} vs {}", o.code, twin.code));
        return false;
    }
    m.nontrivial.insert(hash64(&format!("soft{:?}{}|{:?}|{}|{}", expect_flags, lim.hard, lim, script.len(), cur.len())));
    true
}
pub fn c22(m: &mut Mon, w: &mut World, idx: usize) {
    let (peer, prev, cur, results, script_len) = {
        let r = &w.runs[idx];
        (r.peer, r.prev.clone(), r.cur.clone(), r.results.clone(), r.script.len() as u64)
    };
    // unlimited twin of the real run
    let twin = w.shadow_ex(peer, &prev, &cur, &results, Some(&Limits::default()), None, None);
    let real = w.runs[idx].out.clone();
    let lim = w.limits_of(peer);
    if !check_limits_case(m, w, idx, &lim, Some(&real), &twin) {
        return;
    }
    // boundary configurations around the sizes that actually flow
    let mut rng = run_rng(w, w.runs[idx].eid, 0xC22);
    let max_res = results.values().map(|r| r.1.len() as u64).max();
    for _ in 0..3 {
        let mut l = Limits::default();
        l.hard = rng.chance(50);
        let pick = |rng: &mut Rng, size: u64| -> u64 {
            match rng.below(6) {
                0 => 0,
                1 => size.saturating_sub(1),
                2 => size,
                3 => size + 1,
                4 => size * 2,
                _ => u64::MAX,
            }
        };
        match rng.below(4) {
            0 => l.air = pick(&mut rng, script_len),
            1 => l.particle = pick(&mut rng, cur.len() as u64),
            2 => {
                if let Some(mr) = max_res {
                    l.call_result = pick(&mut rng, mr)
                } else {
                    l.particle = pick(&mut rng, cur.len() as u64)
                }
            }
            _ => {
                l.air = pick(&mut rng, script_len);
                l.particle = pick(&mut rng, cur.len() as u64);
                if let Some(mr) = max_res {
                    l.call_result = pick(&mut rng, mr);
                }
            }
        }
        if !check_limits_case(m, w, idx, &l, None, &twin) {
            return;
        }
    }
}

// ---------------- C14 ----------------
/// peer a trace state is attributed to (by stored tetraplet), and a printable form of the state
fn attribution(d: &InterpreterData, st: &ExecutedState) -> Option<String> {
    match st {
        ExecutedState::Call(CallResult::Executed(ValueRef::Scalar(c)))
        | ExecutedState::Call(CallResult::Executed(ValueRef::Stream { cid: c, .. }))
        | ExecutedState::Call(CallResult::Failed(c)) => {
            let a = d.cid_info.service_result_store.get(c)?;
            Some(d.cid_info.tetraplet_store.get(&a.tetraplet_cid)?.peer_pk.clone())
        }
        ExecutedState::Canon(CanonResult::Executed(c)) => {
            let a = d.cid_info.canon_result_store.get(c)?;
            Some(d.cid_info.tetraplet_store.get(&a.tetraplet)?.peer_pk.clone())
        }
        _ => None,
    }
}
fn state_cid_str(st: &ExecutedState) -> Option<String> {
    match st {
        ExecutedState::Call(CallResult::Executed(ValueRef::Scalar(c)))
        | ExecutedState::Call(CallResult::Executed(ValueRef::Stream { cid: c, .. }))
        | ExecutedState::Call(CallResult::Failed(c)) => Some(c.get_inner().to_string()),
        ExecutedState::Canon(CanonResult::Executed(c)) => Some(c.get_inner().to_string()),
        _ => None,
    }
}
pub fn c14(m: &mut Mon, w: &mut World, idx: usize) {
    let Some(byz) = w.sc.byz else { return };
    let byz_id = w.ids[byz].clone();
    let peer = w.runs[idx].peer;
    // ground truth: what every honest peer itself produced (ids attributed to itself in its own outputs)
    if new_data_class(w.runs[idx].out.code) && w.runs[idx].stored {
        let d = m.decoded(w, idx);
        let me = w.ids[peer].clone();
        for st in d.trace.iter() {
            if attribution(&d, st).as_deref() == Some(me.as_str()) {
                if let Some(c) = state_cid_str(st) {
                    m.produced.entry(me.clone()).or_default().insert(c);
                }
            }
        }
    }
    if peer == byz {
        return;
    }
    let r = &w.runs[idx];
    let code = r.out.code;
    let rejected = matches!(class(code), 'P' | 'U') && r.out.data == **r.prev;
    if r.cur_forged {
        let kinds = r.forge_kinds.join("+");
        if let Some(tag) = r.must_reject.clone() {
            if !rejected {
                let d = format!(
                    "peer {peer} eid {}: data tampered by {byz} with [{kinds}] (alters what is attributed to another peer / another particle) was not rejected: code {code} {}",
                    r.eid,
                    r.out.msg.chars().take(200).collect::<String>()
                );
                m.report(w, Some(idx), "C14", &format!("accepted-{tag}"), d);
                return;
            }
            m.nontrivial.insert(hash64(&format!("rej{kinds}{code}")));
        } else if !rejected && new_data_class(code) {
            // execution-level ops: compare with the twin run on the untampered message, position by position
            if let Some(orig) = r.forged_from.clone() {
                let (prev, results) = (r.prev.clone(), r.results.clone());
                let lim = w.limits_of(peer);
                let twin = w.shadow_ex(peer, &prev, &orig, &results, Some(&lim), None, None);
                if new_data_class(twin.code) {
                    let dt = interp::dec(&twin.data);
                    let df = m.decoded(w, idx);
                    if dt.trace.len() == df.trace.len() {
                        for (p, (st, sf)) in dt.trace.iter().zip(df.trace.iter()).enumerate() {
                            let at = attribution(&dt, st);
                            let af = attribution(&df, sf);
                            let honest_t = at.as_ref().map(|q| *q != byz_id).unwrap_or(false);
                            let honest_f = af.as_ref().map(|q| *q != byz_id).unwrap_or(false);
                            if (honest_t || honest_f) && format!("{st}") != format!("{sf}") {
                                let d = format!(
                                    "peer {peer} eid {}: tampering [{kinds}] by {byz} was accepted: position {p} holds `{sf}` (attributed to {af:?}) where the untampered message gives `{st}` (attributed to {at:?})",
                                    w.runs[idx].eid
                                );
                                // the kind of a result (failed / executed) is bound neither by its content id nor by the
                                // signature: finding F23 is exactly this one flip, of exactly one state
                                let flip = matches!(st, ExecutedState::Call(CallResult::Failed(_)))
                                    && matches!(sf, ExecutedState::Call(CallResult::Executed(_)))
                                    && kinds == "kind_executed_failed"
                                    && state_cid_of(st) == state_cid_of(sf);
                                let tag = if flip { "accepted-kind-flip-failed-to-executed" } else { "accepted-altered-result" };
                                m.report(w, Some(idx), "C14", tag, d);
                                return;
                            }
                        }
                        m.nontrivial.insert(hash64(&format!("twin{kinds}{}", df.trace.len())));
                    }
                }
            }
        } else if rejected {
            m.nontrivial.insert(hash64(&format!("rejx{kinds}{code}")));
        }
    }
    // backstop: nothing attributed to an honest peer that the peer did not produce itself
    if new_data_class(code) && w.runs[idx].stored {
        let d = m.decoded(w, idx);
        for (p, st) in d.trace.iter().enumerate() {
            if let (Some(q), Some(c)) = (attribution(&d, st), state_cid_str(st)) {
                if q != byz_id && q != w.ids[peer] {
                    let known = m.produced.get(&q).map(|s| s.contains(&c)).unwrap_or(false);
                    if !known {
                        let dd = format!("peer {peer} eid {}: data holds at {p} a result {c} attributed to {q}, which {q} never produced", w.runs[idx].eid);
                        m.report(w, Some(idx), "C14", "foreign-content-id", dd);
                        return;
                    }
                }
            }
        }
    }
}

// ---------------- C15 ----------------
fn per_peer_multisets(d: &InterpreterData) -> BTreeMap<String, BTreeMap<String, usize>> {
    let mut m: BTreeMap<String, BTreeMap<String, usize>> = BTreeMap::new();
    for st in d.trace.iter() {
        if let (Some(q), Some(c)) = (attribution(d, st), state_cid_str(st)) {
            *m.entry(q).or_default().entry(c).or_default() += 1;
        }
    }
    m
}
fn multisubset(small: &BTreeMap<String, usize>, large: &BTreeMap<String, usize>) -> bool {
    small.iter().all(|(k, n)| large.get(k).cloned().unwrap_or(0) >= *n)
}
fn sig_map(w: &World, d: &InterpreterData) -> BTreeMap<String, String> {
    let mut out = BTreeMap::new();
    let j = serde_json::to_value(&d.signatures).unwrap_or_default();
    if let Some(o) = j.as_object() {
        for (pk, sig) in o {
            for (i, id) in w.ids.iter().enumerate() {
                if crate::tamper::public_key_string(w, i) == *pk {
                    out.insert(id.clone(), sig.as_str().unwrap_or("").to_string());
                }
            }
        }
    }
    out
}
pub fn c15(m: &mut Mon, w: &mut World, idx: usize) {
    let r = &w.runs[idx];
    // forged input is other properties' business, except the sender's equivocation about its own results
    let equivocation_only = !r.forge_kinds.is_empty() && r.forge_kinds.iter().all(|k| k == "own_rewrite");
    if r.cur.is_empty() || r.prev.is_empty() || (r.cur_forged && !equivocation_only) {
        return;
    }
    let (Ok(a), Ok(b)) = (interp::decode(&r.prev), interp::decode(&r.cur)) else { return };
    let ma = per_peer_multisets(&a.data);
    let mb = per_peer_multisets(&b.data);
    let mut incomparable: Option<String> = None;
    for (p, sa) in &ma {
        if let Some(sb) = mb.get(p) {
            if !multisubset(sa, sb) && !multisubset(sb, sa) {
                incomparable = Some(p.clone());
            }
        }
    }
    let code = r.out.code;
    let eid = r.eid;
    let peer = r.peer;
    if let Some(p) = incomparable {
        let rejected = class(code) == 'P' && r.out.data == **r.prev;
        if !rejected {
            let d = format!("peer {peer} eid {eid}: previous and current data carry incomparable result sets for {p} (equivocation) but the run was not rejected in preparation: code {code} {}", r.out.msg.chars().take(200).collect::<String>());
            m.report(w, Some(idx), "C15", "equivocation-accepted", d);
        } else {
            m.nontrivial.insert(hash64(&format!("equiv{p}{}", ma[&p].len())));
            m.count("c15_equivocations_rejected");
        }
        return;
    }
    if !new_data_class(code) {
        return;
    }
    let Ok(c) = interp::decode(&r.out.data) else { return };
    let sa = sig_map(w, &a.data);
    let sb = sig_map(w, &b.data);
    let sc = sig_map(w, &c.data);
    let mc = per_peer_multisets(&c.data);
    let me = w.ids[peer].clone();
    let mut checked = 0;
    for p in ma.keys().chain(mb.keys()).collect::<BTreeSet<_>>() {
        if *p == me {
            continue;
        }
        let na: usize = ma.get(p).map(|x| x.values().sum()).unwrap_or(0);
        let nb: usize = mb.get(p).map(|x| x.values().sum()).unwrap_or(0);
        let expect = if na > nb { sa.get(p) } else if nb > na { sb.get(p) } else { sa.get(p).or(sb.get(p)) };
        let got = sc.get(p);
        let ok = if na == nb { got.is_some() && (got == sa.get(p) || got == sb.get(p)) } else { got == expect };
        if !ok {
            let d = format!("peer {peer} eid {eid}: merged data keeps for {p} a signature that is not the one that came with its larger result set (|prev|={na}, |cur|={nb})");
            m.report(w, Some(idx), "C15", "wrong-signature-kept", d);
            return;
        }
        // the kept signature verifies over the merged data's multiset for that peer
        if let Some(cids) = mc.get(p) {
            let mut v: Vec<std::rc::Rc<str>> = vec![];
            for (c, n) in cids {
                for _ in 0..*n {
                    v.push(std::rc::Rc::from(c.as_str()));
                }
            }
            v.sort_unstable();
            let mut verified = false;
            for (pk, sig) in c.data.signatures.iter() {
                if pk.to_peer_id().map(|x| x.to_string()).ok().as_deref() == Some(p.as_str()) {
                    verified = pk.verify(&v, &w.runs[idx].particle, sig).is_ok();
                }
            }
            if !verified {
                // Not part of C15 as stated (the property only says WHICH signature is kept). With equal multisets
                // produced on diverging histories (same content ids at different trace positions) the merge can hold
                // more instances than either signed set; counted, not reported.
                m.count("c15_kept_signature_does_not_cover_merged_multiset");
            }
            if false {
                let short = |m: Option<&BTreeMap<String, usize>>| -> String { m.map(|x| x.iter().map(|(k, n)| format!("{}x{n}", &k[k.len().saturating_sub(6)..])).collect::<Vec<_>>().join(",")).unwrap_or_default() };
                let d = format!(
                    "peer {peer} eid {eid}: the signature kept for {p} does not verify over the merged data's result multiset for {p} ({} results); prev has [{}], current has [{}], merged has [{}]",
                    v.len(),
                    short(ma.get(p)),
                    short(mb.get(p)),
                    short(mc.get(p))
                );
                m.report(w, Some(idx), "C15", "kept-signature-does-not-verify", d);
                return;
            }
        }
        checked += 1;
        if na != nb && na > 0 && nb > 0 {
            m.nontrivial.insert(hash64(&format!("nested{p}{na}{nb}")));
        }
    }
    let _ = checked;
}

// ---------------- C01: the other public entry points on everything that crosses the wire ----------------
pub fn c01_entry_points(m: &mut Mon, w: &mut World, idx: usize) {
    let (cur, script, first) = {
        let r = &w.runs[idx];
        (r.cur.clone(), r.script.clone(), idx == 0 || r.script != w.script)
    };
    if !cur.is_empty() {
        let c2 = cur.clone();
        let mark = interp::heap_mark();
        let res = std::panic::catch_unwind(move || {
            let _ = air::to_human_readable_data(c2.to_vec());
        });
        let peak = interp::heap_peak_since(mark);
        if res.is_err() {
            let p = interp::last_panic();
            let loc = p.split(": ").next().unwrap_or("").to_string();
            m.report(w, Some(idx), "C01", &format!("panic@{loc}"), format!("to_human_readable_data panicked on a {} byte blob: {p}", cur.len()));
            return;
        }
        // linear bound; the constant is larger than for execute_air because the pretty-printer holds the parsed
        // values, their escaped text and the output at once (measured up to ~95x on multi-megabyte blobs)
        if peak > 256 * cur.len() + (16 << 20) {
            m.report(w, Some(idx), "C01", "heap", format!("to_human_readable_data needed {peak} bytes for a {} byte blob", cur.len()));
            return;
        }
    }
    if first {
        let s2 = script.clone();
        let res = std::panic::catch_unwind(move || {
            let _ = air::parser::parse(&s2);
            let mut out = Vec::new();
            let _ = air_beautifier::beautify(&s2, &mut out, false);
        });
        if res.is_err() {
            m.report(w, Some(idx), "C01", "panic@parse-or-beautify", format!("parse/beautify panicked on script: {}", script.chars().take(300).collect::<String>()));
        }
    }
}
