//! Script AST (the simulator's own; shares nothing with air-parser), renderer, and the
//! grammar-directed generator with rules U / D1 / R1 / R1' / E1 of DESIGN.md 2.5.

use crate::rngx::Rng;
use serde::{Deserialize, Serialize};
use std::collections::BTreeSet;

#[derive(Clone, Debug, Serialize, Deserialize, PartialEq)]
pub enum Lens {
    Field(String),
    Idx(u32),
    VarIdx(String),
}
#[derive(Clone, Debug, Serialize, Deserialize, PartialEq)]
pub enum Arg {
    Str(String),
    Num(i64),
    Bool(bool),
    EmptyArr,
    InitPeer,
    Timestamp,
    Ttl,
    Var { name: String, lens: Vec<Lens> },
    Canon { name: String, lens: Vec<Lens> },
    ErrCode,
    ErrMsg,
    LastErrCode,
    LastErrMsg,
    Length { name: String },
}
#[derive(Clone, Debug, Serialize, Deserialize, PartialEq)]
pub enum PeerRef {
    Lit(usize),
    Init,
    Var { name: String, lens: Vec<Lens> },
}
#[derive(Clone, Debug, Serialize, Deserialize, PartialEq)]
pub enum Out {
    None,
    Scalar(String),
    Stream(String),
}
#[derive(Clone, Debug, Serialize, Deserialize, PartialEq)]
pub enum Node {
    Null,
    Never,
    Call { peer: PeerRef, service: String, fname: String, args: Vec<Arg>, out: Out },
    Seq(Box<Node>, Box<Node>),
    Par(Box<Node>, Box<Node>),
    Xor(Box<Node>, Box<Node>),
    Match { l: Arg, r: Arg, body: Box<Node> },
    Mismatch { l: Arg, r: Arg, body: Box<Node> },
    Fail { code: i64, msg: String },
    FailLastError,
    FailError,
    Ap { src: Arg, dst: String },
    ApMap { key: Arg, val: Arg, dst: String },
    Canon { peer: PeerRef, src: String, dst: String },
    Fold { iterable: Arg, it: String, body: Box<Node>, last: Option<Box<Node>> },
    Next(String),
    New { var: String, body: Box<Node> },
    Raw(String),
}

pub fn render_lens(l: &[Lens]) -> String {
    if l.is_empty() {
        return String::new();
    }
    let mut s = String::from(".$");
    for x in l {
        match x {
            Lens::Field(f) => {
                s.push('.');
                s.push_str(f)
            }
            Lens::Idx(i) => s.push_str(&format!(".[{i}]")),
            Lens::VarIdx(v) => s.push_str(&format!(".[{v}]")),
        }
    }
    s
}
pub fn render_arg(a: &Arg) -> String {
    match a {
        Arg::Str(s) => format!("\"{s}\""),
        Arg::Num(n) => format!("{n}"),
        Arg::Bool(b) => format!("{b}"),
        Arg::EmptyArr => "[]".into(),
        Arg::InitPeer => "%init_peer_id%".into(),
        Arg::Timestamp => "%timestamp%".into(),
        Arg::Ttl => "%ttl%".into(),
        Arg::Var { name, lens } | Arg::Canon { name, lens } => format!("{name}{}", render_lens(lens)),
        Arg::ErrCode => ":error:.$.error_code".into(),
        Arg::ErrMsg => ":error:.$.message".into(),
        Arg::LastErrCode => "%last_error%.$.error_code".into(),
        Arg::LastErrMsg => "%last_error%.$.message".into(),
        Arg::Length { name } => format!("{name}.length"),
    }
}
pub fn render_peer(p: &PeerRef, ids: &[String]) -> String {
    match p {
        PeerRef::Lit(i) => format!("\"{}\"", ids[*i]),
        PeerRef::Init => "%init_peer_id%".into(),
        PeerRef::Var { name, lens } => format!("{name}{}", render_lens(lens)),
    }
}
pub fn render(n: &Node, ids: &[String]) -> String {
    match n {
        Node::Null => "(null)".into(),
        Node::Never => "(never)".into(),
        Node::Call { peer, service, fname, args, out } => {
            let a: Vec<String> = args.iter().map(render_arg).collect();
            let o = match out {
                Out::None => String::new(),
                Out::Scalar(s) | Out::Stream(s) => format!(" {s}"),
            };
            format!("(call {} (\"{service}\" \"{fname}\") [{}]{o})", render_peer(peer, ids), a.join(" "))
        }
        Node::Seq(l, r) => format!("(seq {} {})", render(l, ids), render(r, ids)),
        Node::Par(l, r) => format!("(par {} {})", render(l, ids), render(r, ids)),
        Node::Xor(l, r) => format!("(xor {} {})", render(l, ids), render(r, ids)),
        Node::Match { l, r, body } => format!("(match {} {} {})", render_arg(l), render_arg(r), render(body, ids)),
        Node::Mismatch { l, r, body } => {
            format!("(mismatch {} {} {})", render_arg(l), render_arg(r), render(body, ids))
        }
        Node::Fail { code, msg } => format!("(fail {code} \"{msg}\")"),
        Node::FailLastError => "(fail %last_error%)".into(),
        Node::FailError => "(fail :error:)".into(),
        Node::Ap { src, dst } => format!("(ap {} {dst})", render_arg(src)),
        Node::ApMap { key, val, dst } => format!("(ap ({} {}) {dst})", render_arg(key), render_arg(val)),
        Node::Canon { peer, src, dst } => format!("(canon {} {src} {dst})", render_peer(peer, ids)),
        Node::Fold { iterable, it, body, last } => {
            let l = match last {
                Some(x) => format!(" {}", render(x, ids)),
                None => String::new(),
            };
            format!("(fold {} {it} {}{l})", render_arg(iterable), render(body, ids))
        }
        Node::Next(it) => format!("(next {it})"),
        Node::New { var, body } => format!("(new {var} {})", render(body, ids)),
        Node::Raw(s) => s.clone(),
    }
}

impl Node {
    pub fn seq(l: Node, r: Node) -> Node {
        Node::Seq(Box::new(l), Box::new(r))
    }
    pub fn par(l: Node, r: Node) -> Node {
        Node::Par(Box::new(l), Box::new(r))
    }
    pub fn xor(l: Node, r: Node) -> Node {
        Node::Xor(Box::new(l), Box::new(r))
    }
    pub fn count(&self) -> usize {
        match self {
            Node::Seq(l, r) | Node::Par(l, r) | Node::Xor(l, r) => 1 + l.count() + r.count(),
            Node::Match { body, .. } | Node::Mismatch { body, .. } | Node::New { body, .. } => 1 + body.count(),
            Node::Fold { body, last, .. } => 1 + body.count() + last.as_ref().map(|x| x.count()).unwrap_or(0),
            _ => 1,
        }
    }
    /// all call nodes (pre-order)
    pub fn calls<'a>(&'a self, out: &mut Vec<&'a Node>) {
        match self {
            Node::Call { .. } => out.push(self),
            Node::Seq(l, r) | Node::Par(l, r) | Node::Xor(l, r) => {
                l.calls(out);
                r.calls(out)
            }
            Node::Match { body, .. } | Node::Mismatch { body, .. } | Node::New { body, .. } => body.calls(out),
            Node::Fold { body, last, .. } => {
                body.calls(out);
                if let Some(x) = last {
                    x.calls(out)
                }
            }
            _ => {}
        }
    }
    /// Children for shrinking: candidate replacements of this node by simpler ones.
    pub fn walk_mut(&mut self, f: &mut dyn FnMut(&mut Node)) {
        f(self);
        match self {
            Node::Seq(l, r) | Node::Par(l, r) | Node::Xor(l, r) => {
                l.walk_mut(f);
                r.walk_mut(f)
            }
            Node::Match { body, .. } | Node::Mismatch { body, .. } | Node::New { body, .. } => body.walk_mut(f),
            Node::Fold { body, last, .. } => {
                body.walk_mut(f);
                if let Some(x) = last {
                    x.walk_mut(f)
                }
            }
            _ => {}
        }
    }
}

#[derive(Clone, Debug, Default, Serialize, Deserialize, PartialEq)]
pub struct Flags {
    pub streams: bool,
    pub canon: bool,
    pub folds: bool,
    pub sfolds: bool, // folds over streams
    pub xor: bool,
    pub joins: bool,
    pub news: bool,
    pub parnext: bool,
    pub maps: bool,
    pub rec: bool,
    pub vartarget: bool,
    pub lastinstr: bool,
    pub errs: bool,
    pub lenses: bool,
    pub matches: bool,
    pub never: bool,
    pub scalar_ap: bool,
    pub frag16: bool,    // stay inside the C16 fragment
    pub uncaught: bool,  // allow fallible instructions outside xor (C02/C18 profiles)
    pub f1_profile: bool, // allow scripts violating R1 (known to hit F1)
}
impl Flags {
    pub fn random(rng: &mut Rng) -> Flags {
        // swarm presets: half of the histories enable a small focused feature set, so that each enabled
        // feature gets a real share of the script (a feature competing with 15 others is hardly ever reached)
        let preset = rng.below(16);
        let base = Flags::default();
        let focused = match preset {
            0 => Some(Flags { streams: true, canon: true, folds: true, joins: rng.chance(30), ..base.clone() }),
            1 => Some(Flags { streams: true, sfolds: true, parnext: rng.chance(50), lastinstr: rng.chance(50), ..base.clone() }),
            2 => Some(Flags { streams: true, sfolds: true, rec: true, parnext: rng.chance(50), lastinstr: rng.chance(50), ..base.clone() }),
            3 => Some(Flags { streams: true, maps: true, canon: true, folds: true, ..base.clone() }),
            4 => Some(Flags { xor: true, errs: true, matches: true, lenses: true, ..base.clone() }),
            5 => Some(Flags { streams: true, news: true, sfolds: true, canon: true, ..base.clone() }),
            6 => Some(Flags { folds: true, parnext: true, vartarget: true, scalar_ap: true, lenses: true, ..base.clone() }),
            7 => Some(Flags { streams: true, canon: true, sfolds: true, folds: true, xor: rng.chance(50), ..base.clone() }),
            _ => None,
        };
        if let Some(f) = focused {
            return f;
        }
        Flags {
            streams: rng.chance(70),
            canon: rng.chance(60),
            folds: rng.chance(60),
            sfolds: rng.chance(60),
            xor: rng.chance(60),
            joins: rng.chance(40),
            news: rng.chance(40),
            parnext: rng.chance(50),
            maps: rng.chance(30),
            rec: rng.chance(25),
            vartarget: rng.chance(40),
            lastinstr: rng.chance(50),
            errs: rng.chance(40),
            lenses: rng.chance(50),
            matches: rng.chance(40),
            never: rng.chance(15),
            scalar_ap: rng.chance(40),
            frag16: false,
            uncaught: false,
            f1_profile: false,
        }
    }
    pub fn frag16(rng: &mut Rng) -> Flags {
        Flags {
            streams: false,
            canon: false,
            folds: rng.chance(70),
            sfolds: false,
            xor: rng.chance(80),
            joins: rng.chance(30),
            news: rng.chance(50),
            parnext: rng.chance(40),
            maps: false,
            rec: false,
            vartarget: rng.chance(40),
            lastinstr: false,
            errs: rng.chance(60),
            lenses: rng.chance(70),
            matches: rng.chance(70),
            never: rng.chance(30),
            scalar_ap: rng.chance(70),
            frag16: true,
            uncaught: false,
            f1_profile: false,
        }
    }
}

#[derive(Clone, Debug, PartialEq)]
pub enum Shape {
    Plain, // {"f":..,"a":[..]} object
    Arr,   // array of unique strings
    Obj,   // {"a":{"b":N},"c":[10,20],"f":name,"x":[args]}
    Peer,  // peer id string
    Num,
    Lit,
    Iter, // fold iterator (element of something)
    CanonArr, // a whole canonical stream assigned to a scalar (array of stream values, possibly empty)
}
#[derive(Clone, Debug)]
pub struct Var {
    pub name: String,
    pub shape: Shape,
    pub fold_depth: usize, // number of enclosing folds at definition
}
#[derive(Clone, Default)]
struct Scope {
    scalars: Vec<Var>,
    streams: Vec<String>, // readable + writable
    wo: Vec<String>,      // write-only from here (outer streams inside fold bodies)
    canons: Vec<String>,
    maps: Vec<String>,
    cmaps: Vec<String>,
    iters: Vec<String>, // enclosing iterators, outermost first
    in_fold: bool,
    in_sfold: bool,
    folding: Vec<String>, // streams/maps being folded by an enclosing fold: never appended to from inside
    err_ok: bool, // first instruction of an xor right branch: may reference :error:
    under_xor_left_nopar: bool,
    in_xor_left: bool, // anywhere below the left branch of an xor whose right branch the sequential reading must not reach
    apped: BTreeSet<(String, String)>,
}

pub struct Gen {
    pub np: usize,
    pub n: usize,
    pub flags: Flags,
    pub force: Option<usize>, // next node kind (used by `generate` to make sure enabled features occur)
}

impl Gen {
    fn id(&mut self) -> usize {
        self.n += 1;
        self.n
    }
    fn peer(&mut self, rng: &mut Rng, sc: &Scope) -> PeerRef {
        if self.flags.vartarget && rng.chance(35) {
            let pv: Vec<&Var> = sc.scalars.iter().filter(|v| v.shape == Shape::Peer).collect();
            if !pv.is_empty() {
                return PeerRef::Var { name: pv[rng.below(pv.len())].name.clone(), lens: vec![] };
            }
        }
        if rng.chance(10) {
            PeerRef::Init
        } else {
            PeerRef::Lit(rng.below(self.np))
        }
    }
    fn scalar_arg(&mut self, rng: &mut Rng, sc: &Scope) -> Option<Arg> {
        if sc.scalars.is_empty() {
            return None;
        }
        let v = sc.scalars[rng.below(sc.scalars.len())].clone();
        let lens = if self.flags.lenses && rng.chance(60) {
            match v.shape {
                Shape::Obj => match rng.below(4) {
                    0 => vec![Lens::Field("a".into()), Lens::Field("b".into())],
                    1 => vec![Lens::Field("c".into()), Lens::Idx(rng.below(2) as u32)],
                    2 => vec![Lens::Field("a".into())],
                    _ => vec![Lens::Field("f".into())],
                },
                Shape::Arr => vec![Lens::Idx(0)],
                Shape::Plain => vec![Lens::Field("f".into())],
                // may fail on an empty canon: never under an xor left branch (the reference model assumes success)
                Shape::CanonArr if !sc.in_xor_left => vec![Lens::Idx(0)],
                _ => vec![],
            }
        } else {
            vec![]
        };
        Some(Arg::Var { name: v.name, lens })
    }
    fn args(&mut self, rng: &mut Rng, sc: &Scope) -> Vec<Arg> {
        let mut a = vec![];
        for _ in 0..rng.below(3) {
            match rng.below(6) {
                0 | 1 => {
                    if let Some(x) = self.scalar_arg(rng, sc) {
                        a.push(x)
                    }
                }
                2 if !sc.canons.is_empty() && (sc.cmaps.is_empty() || rng.chance(60)) => {
                    let c = sc.canons[rng.below(sc.canons.len())].clone();
                    a.push(Arg::Canon { name: c, lens: vec![] });
                }
                2 if !sc.cmaps.is_empty() => {
                    let c = sc.cmaps[rng.below(sc.cmaps.len())].clone();
                    a.push(Arg::Canon { name: c, lens: vec![] });
                }
                3 if sc.err_ok && self.flags.errs => a.push(if rng.chance(50) { Arg::ErrCode } else { Arg::ErrMsg }),
                3 => a.push(Arg::Str(format!("lit{}", rng.below(5)))),
                4 => a.push(match rng.below(6) {
                    0 => Arg::Num(rng.below(100) as i64),
                    1 => Arg::Bool(rng.chance(50)),
                    2 => Arg::EmptyArr,
                    3 => Arg::InitPeer,
                    4 => Arg::Timestamp,
                    _ => Arg::Ttl,
                }),
                _ => {}
            }
        }
        // rule U: all enclosing iterators as trailing arguments
        for it in &sc.iters {
            a.push(Arg::Var { name: it.clone(), lens: vec![] });
        }
        a
    }
    /// kind: "f" plain, "arr", "obj", "peer", "fail"
    fn call(&mut self, rng: &mut Rng, sc: &mut Scope, kind: &str) -> Node {
        let id = self.id();
        let peer = self.peer(rng, sc);
        let mut args = self.args(rng, sc);
        if let PeerRef::Var { name, lens } = &peer {
            // the generator passes the target along, so the C19 monitor knows whom the call is addressed to
            args.insert(0, Arg::Var { name: name.clone(), lens: lens.clone() });
        }
        sc.err_ok = false;
        let fd = sc.iters.len();
        let shape = match kind {
            "arr" => Shape::Arr,
            "obj" => Shape::Obj,
            "peer" => Shape::Peer,
            _ => Shape::Plain,
        };
        let must_scalar = kind == "arr" || kind == "obj" || kind == "peer";
        // when streams are enabled and none exists yet, create one early so that canon / stream folds become applicable
        let want_first_stream = self.flags.streams && !must_scalar && kind != "fail" && !sc.in_fold && sc.streams.is_empty() && rng.chance(50);
        let out = match if want_first_stream { 2 } else { rng.below(4) } {
            0 | 1 => Out::Scalar(format!("v{id}")),
            2 if self.flags.streams && !must_scalar && kind != "fail" => {
                if sc.in_fold {
                    // inside a fold body: local (new-scoped) streams, or outer streams write-only
                    let mut cands: Vec<String> = sc.streams.clone();
                    cands.extend(sc.wo.iter().cloned());
                    if cands.is_empty() {
                        Out::None
                    } else {
                        Out::Stream(cands[rng.below(cands.len())].clone())
                    }
                } else if sc.streams.is_empty() || rng.chance(30) {
                    let s = format!("$s{id}");
                    sc.streams.push(s.clone());
                    Out::Stream(s)
                } else {
                    Out::Stream(sc.streams[rng.below(sc.streams.len())].clone())
                }
            }
            _ => {
                if must_scalar {
                    Out::Scalar(format!("v{id}"))
                } else {
                    Out::None
                }
            }
        };
        if kind == "fail" {
            // a failing call never binds its output; keep it scalar or none
        } else if let Out::Scalar(v) = &out {
            sc.scalars.push(Var { name: v.clone(), shape, fold_depth: fd });
        }
        Node::Call { peer, service: "svc".into(), fname: format!("{kind}{id}"), args, out }
    }
    fn failing(&mut self, rng: &mut Rng, sc: &mut Scope, depth: usize) -> Node {
        // a fallible instruction (catchable): fail / service error / match on different literals / bad lens / non-array fold
        match rng.below(if self.flags.lenses { 6 } else { 4 }) {
            0 => Node::Fail { code: 1 + rng.below(5) as i64, msg: format!("boom{}", self.id()) },
            1 | 2 => self.call(rng, sc, "fail"),
            3 => {
                let mut b = sc.clone();
                let body = self.gen(rng, depth.saturating_sub(1), &mut b);
                Node::Match { l: Arg::Str("a".into()), r: Arg::Str("b".into()), body: Box::new(body) }
            }
            4 => {
                // lens error on an object result: field that does not exist
                let objs: Vec<Var> = sc.scalars.iter().filter(|v| v.shape == Shape::Obj || v.shape == Shape::Plain).cloned().collect();
                if objs.is_empty() {
                    return Node::Fail { code: 7, msg: format!("boom{}", self.id()) };
                }
                let v = objs[rng.below(objs.len())].clone();
                let id = self.id();
                let mut args = vec![Arg::Var { name: v.name, lens: vec![Lens::Field("nosuch".into())] }];
                for it in &sc.iters {
                    args.push(Arg::Var { name: it.clone(), lens: vec![] });
                }
                Node::Call { peer: self.peer(rng, sc), service: "svc".into(), fname: format!("f{id}"), args, out: Out::None }
            }
            _ => {
                // fold over a non-array scalar
                let objs: Vec<Var> = sc.scalars.iter().filter(|v| v.shape == Shape::Obj || v.shape == Shape::Plain).cloned().collect();
                if objs.is_empty() {
                    return Node::Fail { code: 8, msg: format!("boom{}", self.id()) };
                }
                let v = objs[rng.below(objs.len())].clone();
                let it = format!("it{}", self.id());
                Node::Fold {
                    iterable: Arg::Var { name: v.name, lens: vec![] },
                    it: it.clone(),
                    body: Box::new(Node::seq(Node::Null, Node::Next(it))),
                    last: None,
                }
            }
        }
    }
    fn merge_streams(sc: &mut Scope, subs: &[&Scope]) {
        for s in subs {
            for x in &s.streams {
                if !sc.streams.contains(x) && !sc.wo.contains(x) {
                    sc.streams.push(x.clone());
                }
            }
            for x in &s.maps {
                if !sc.maps.contains(x) {
                    sc.maps.push(x.clone());
                }
            }
            for x in &s.apped {
                sc.apped.insert(x.clone());
            }
        }
    }
    fn fold_body_scope(&self, sc: &Scope, it: &str, stream_fold: bool, folded: Option<&str>) -> Scope {
        let mut b = sc.clone();
        if let Some(f) = folded {
            b.folding.push(f.to_string());
        }
        b.scalars.push(Var { name: it.to_string(), shape: Shape::Iter, fold_depth: sc.iters.len() + 1 });
        b.iters.push(it.to_string());
        // R1 / R1': outer streams become write-only inside any fold body
        let mut wo = sc.wo.clone();
        for s in &sc.streams {
            if !wo.contains(s) {
                wo.push(s.clone());
            }
        }
        if self.flags.f1_profile {
            // F1 profile keeps them readable
            b.streams.retain(|s| !b.folding.contains(s));
        } else {
            wo.retain(|s| !b.folding.contains(s));
            b.wo = wo;
            b.streams.clear();
            b.maps.clear();
        }
        if stream_fold {
            b.canons.clear();
            b.cmaps.clear();
            b.in_sfold = true;
        }
        b.in_fold = true;
        b.err_ok = false;
        b.under_xor_left_nopar = false;
        b
    }
    pub fn gen(&mut self, rng: &mut Rng, depth: usize, sc: &mut Scope) -> Node {
        let fl = self.flags.clone();
        if depth == 0 {
            let r = match rng.below(8) {
                0 => Node::Null,
                1 if fl.lenses => self.call(rng, sc, "obj"),
                2 if fl.vartarget => self.call(rng, sc, "peer"),
                _ => self.call(rng, sc, "f"),
            };
            sc.err_ok = false;
            return r;
        }
        // weighted choice: mostly structure (so that scripts reach a useful size), otherwise one of the
        // features that are enabled for this history and applicable at this point
        let forced = self.force.take();
        let choice = if let Some(f) = forced {
            f
        } else {
            let r = rng.below(100);
            if r < 32 {
                0
            } else if r < 45 {
                4
            } else if r < 53 && fl.xor {
                6
            } else {
                let mut c: Vec<usize> = vec![99, 99];
                if fl.streams && (!sc.streams.is_empty() || !sc.wo.is_empty()) {
                    c.push(7);
                }
                if fl.canon && !sc.streams.is_empty() {
                    c.push(8);
                    c.push(8);
                }
                if fl.folds {
                    c.push(9);
                }
                if fl.sfolds && fl.streams && !sc.streams.is_empty() && !fl.frag16 {
                    c.push(10);
                    c.push(10);
                }
                if fl.folds && !sc.canons.is_empty() {
                    c.push(11);
                }
                if fl.news && fl.streams {
                    c.push(12);
                }
                if fl.maps && !sc.in_fold {
                    c.push(13);
                }
                if fl.maps && fl.canon && !sc.maps.is_empty() {
                    c.push(14);
                }
                if fl.maps && fl.folds && (!sc.maps.is_empty() || !sc.cmaps.is_empty()) {
                    c.push(15);
                }
                if fl.rec && fl.streams && !fl.frag16 {
                    c.push(16);
                }
                if fl.news {
                    c.push(17);
                }
                if fl.vartarget {
                    c.push(18);
                }
                if fl.matches && !sc.scalars.is_empty() {
                    c.push(19);
                }
                if fl.scalar_ap {
                    c.push(20);
                }
                if fl.never && !sc.in_fold {
                    c.push(21);
                }
                if fl.xor && fl.lenses {
                    c.push(22);
                }
                if fl.news && fl.streams && !sc.in_fold {
                    c.push(23);
                }
                c[rng.below(c.len())]
            }
        };
        let err_ok_in = sc.err_ok;
        let node = match choice {
            0 | 1 | 2 | 3 => {
                let l = self.gen(rng, depth - 1, sc);
                let r = self.gen(rng, depth - 1, sc);
                Node::seq(l, r)
            }
            4 | 5 => {
                let mut a = sc.clone();
                let mut b = sc.clone();
                a.under_xor_left_nopar = false;
                b.under_xor_left_nopar = false;
                b.err_ok = false;
                let l = self.gen(rng, depth - 1, &mut a);
                let r = self.gen(rng, depth - 1, &mut b);
                if fl.joins {
                    for v in a.scalars.iter().chain(b.scalars.iter()) {
                        if !sc.scalars.iter().any(|x| x.name == v.name) && v.fold_depth == sc.iters.len() {
                            sc.scalars.push(v.clone());
                        }
                    }
                }
                Self::merge_streams(sc, &[&a, &b]);
                Node::par(l, r)
            }
            6 if fl.xor && rng.chance(35) => {
                // an xor whose left branch does NOT fail: the right branch must never run anywhere
                // (its calls are not in the sequential reading)
                let mut a = sc.clone();
                a.err_ok = false;
                a.under_xor_left_nopar = true;
                a.in_xor_left = true;
                let l = self.gen(rng, depth - 1, &mut a);
                let mut b = sc.clone();
                b.err_ok = false;
                let r = self.gen(rng, depth - 1, &mut b);
                Self::merge_streams(sc, &[&a, &b]);
                Node::xor(l, r)
            }
            6 if fl.xor => {
                let mut a = sc.clone();
                a.err_ok = false;
                a.under_xor_left_nopar = true;
                let failing = self.failing(rng, &mut a, depth);
                let pre = if rng.chance(50) {
                    // things before the failing instruction: must not themselves fail uncaught
                    let mut a2 = a.clone();
                    let x = self.gen(rng, depth - 1, &mut a2);
                    // note: failing was generated against `a`; x's definitions are not visible to it (fine)
                    Self::merge_streams(&mut a, &[&a2]);
                    Node::seq(x, failing)
                } else {
                    failing
                };
                let mut b = sc.clone();
                b.err_ok = true; // rule E1: only the first instruction of the right branch
                let r = self.gen(rng, depth - 1, &mut b);
                Self::merge_streams(sc, &[&a, &b]);
                Node::xor(pre, r)
            }
            7 if fl.streams && (!sc.streams.is_empty() || !sc.wo.is_empty()) => {
                // ap into a stream; uniqueness rules (see module doc)
                let mut cands: Vec<String> = sc.streams.clone();
                cands.extend(sc.wo.iter().cloned());
                let s = cands[rng.below(cands.len())].clone();
                let depth_now = sc.iters.len();
                let locals: Vec<Var> = sc
                    .scalars
                    .iter()
                    .filter(|v| v.fold_depth == depth_now && v.shape != Shape::Iter && !sc.apped.contains(&(v.name.clone(), s.clone())))
                    .cloned()
                    .collect();
                if !locals.is_empty() && rng.chance(60) {
                    let v = locals[rng.below(locals.len())].clone();
                    sc.apped.insert((v.name.clone(), s.clone()));
                    Node::Ap { src: Arg::Var { name: v.name, lens: vec![] }, dst: s }
                } else if !sc.in_fold {
                    Node::Ap { src: Arg::Str(format!("l{}", self.id())), dst: s }
                } else {
                    self.call(rng, sc, "f")
                }
            }
            8 if fl.canon && !sc.streams.is_empty() => {
                let s = sc.streams[rng.below(sc.streams.len())].clone();
                let id = self.id();
                let c = format!("#c{id}");
                let p = if rng.chance(10) { PeerRef::Init } else { PeerRef::Lit(rng.below(self.np)) };
                sc.canons.push(c.clone());
                Node::Canon { peer: p, src: s, dst: c }
            }
            9 if fl.folds => {
                // fold over a scalar array produced right before
                // sometimes over a lens of an object that is already in scope (possibly produced in a par sibling: a join)
                let objs: Vec<Var> = sc.scalars.iter().filter(|v| v.shape == Shape::Obj).cloned().collect();
                if fl.lenses && !objs.is_empty() && rng.chance(45) {
                    let o = objs[rng.below(objs.len())].clone();
                    let id = self.id();
                    let it = format!("it{id}");
                    let mut b = self.fold_body_scope(sc, &it, false, None);
                    let body = self.gen(rng, depth - 1, &mut b);
                    let comb_par = fl.parnext && rng.chance(50);
                    let inner = if comb_par { Node::par(body, Node::Next(it.clone())) } else { Node::seq(body, Node::Next(it.clone())) };
                    return_node_fold_lens(o.name, it, inner)
                } else {
                let mut s2 = sc.clone();
                let arr = self.call(rng, &mut s2, "arr");
                let a = s2.scalars.last().unwrap().clone();
                sc.scalars.push(a.clone());
                let id = self.id();
                let it = format!("it{id}");
                let mut b = self.fold_body_scope(sc, &it, false, None);
                let body = self.gen(rng, depth - 1, &mut b);
                let comb_par = fl.parnext && rng.chance(50);
                let inner = if comb_par { Node::par(body, Node::Next(it.clone())) } else { Node::seq(body, Node::Next(it.clone())) };
                Node::seq(arr, Node::Fold { iterable: Arg::Var { name: a.name, lens: vec![] }, it, body: Box::new(inner), last: None })
                }
            }
            10 if fl.sfolds && fl.streams && !sc.streams.is_empty() && !fl.frag16 => {
                let s = sc.streams[rng.below(sc.streams.len())].clone();
                let id = self.id();
                let it = format!("it{id}");
                let mut b = self.fold_body_scope(sc, &it, true, Some(&s));
                let body = self.gen(rng, depth - 1, &mut b);
                let comb_par = fl.parnext && rng.chance(50);
                let inner = if comb_par { Node::par(body, Node::Next(it.clone())) } else { Node::seq(body, Node::Next(it.clone())) };
                let last = if fl.lastinstr && rng.chance(60) {
                    // the last instruction runs once, after the last iteration, outside the iterator's scope
                    if rng.chance(50) {
                        Some(Box::new(Node::Null))
                    } else {
                        // (never appending to the stream being folded: that would be a script-level endless recursion)
                        // It runs once per generation of the folded stream (docs/fold.md), so it is treated like a fold
                        // body: outer streams are write-only, streams it reads must be new-scoped inside it.
                        let mut ls = sc.clone();
                        ls.folding.push(s.clone());
                        let mut wo = ls.wo.clone();
                        for x in &ls.streams {
                            if !wo.contains(x) {
                                wo.push(x.clone());
                            }
                        }
                        wo.retain(|x| *x != s);
                        ls.wo = wo;
                        ls.streams.clear();
                        ls.maps.clear();
                        ls.in_fold = true;
                        Some(Box::new(self.gen(rng, 1, &mut ls)))
                    }
                } else {
                    None
                };
                Node::Fold { iterable: Arg::Var { name: s, lens: vec![] }, it, body: Box::new(inner), last }
            }
            11 if fl.folds && !sc.canons.is_empty() => {
                let c = sc.canons[rng.below(sc.canons.len())].clone();
                let id = self.id();
                let it = format!("it{id}");
                let mut b = self.fold_body_scope(sc, &it, false, None);
                let body = self.gen(rng, depth - 1, &mut b);
                Node::Fold {
                    iterable: Arg::Canon { name: c, lens: vec![] },
                    it: it.clone(),
                    body: Box::new(Node::seq(body, Node::Next(it))),
                    last: None,
                }
            }
            12 if fl.news && fl.streams => {
                let id = self.id();
                let s = format!("$n{id}");
                let mut b = sc.clone();
                b.streams.push(s.clone());
                let body = self.gen(rng, depth - 1, &mut b);
                b.streams.retain(|x| *x != s);
                Self::merge_streams(sc, &[&b]);
                Node::New { var: s, body: Box::new(body) }
            }
            13 if fl.maps && !sc.in_fold => {
                let m = if sc.maps.is_empty() || rng.chance(30) {
                    let m = format!("%m{}", self.id());
                    sc.maps.push(m.clone());
                    m
                } else {
                    sc.maps[rng.below(sc.maps.len())].clone()
                };
                // string and numeric keys that render alike ("1" and 1) are distinct keys of one map
                let key = match rng.below(4) {
                    0 => Arg::Str(format!("k{}", rng.below(3))),
                    1 => Arg::Num(rng.below(3) as i64),
                    2 => Arg::Str(format!("{}", rng.below(3))),
                    _ => Arg::Str(format!("k{}", rng.below(3))),
                };
                // values with their own tetraplets (call results) as well as literals
                let plain: Vec<&Var> = sc.scalars.iter().filter(|v| v.fold_depth == 0 && v.shape != Shape::CanonArr).collect();
                let val = if !plain.is_empty() && rng.chance(50) {
                    Arg::Var { name: plain[rng.below(plain.len())].name.clone(), lens: vec![] }
                } else {
                    Arg::Str(format!("mv{}", self.id()))
                };
                Node::ApMap { key, val, dst: m }
            }
            14 if fl.maps && fl.canon && !sc.maps.is_empty() => {
                let m = sc.maps[rng.below(sc.maps.len())].clone();
                let id = self.id();
                let p = PeerRef::Lit(rng.below(self.np));
                if rng.chance(70) {
                    let c = format!("#%cm{id}");
                    sc.cmaps.push(c.clone());
                    Node::Canon { peer: p, src: m, dst: c }
                } else {
                    let v = format!("v{id}");
                    sc.scalars.push(Var { name: v.clone(), shape: Shape::Lit, fold_depth: sc.iters.len() });
                    Node::Canon { peer: p, src: m, dst: v }
                }
            }
            15 if fl.maps && fl.folds && (!sc.maps.is_empty() || !sc.cmaps.is_empty()) => {
                let it = format!("it{}", self.id());
                let over_stream = sc.cmaps.is_empty() || (!sc.maps.is_empty() && rng.chance(50));
                let src = if over_stream { sc.maps[rng.below(sc.maps.len())].clone() } else { sc.cmaps[rng.below(sc.cmaps.len())].clone() };
                let mut b = self.fold_body_scope(sc, &it, over_stream, if over_stream { Some(&src) } else { None });
                let body = self.gen(rng, depth - 1, &mut b);
                let last = if over_stream && fl.lastinstr && rng.chance(50) { Some(Box::new(Node::Null)) } else { None };
                let iterable = if over_stream { Arg::Var { name: src, lens: vec![] } } else { Arg::Canon { name: src, lens: vec![] } };
                Node::Fold { iterable, it: it.clone(), body: Box::new(Node::seq(body, Node::Next(it))), last }
            }
            16 if fl.rec && fl.streams && !fl.frag16 => {
                // terminating recursive stream, always new-scoped when inside a fold
                let id = self.id();
                let s = format!("$r{id}");
                let it = format!("it{id}");
                let p = PeerRef::Lit(rng.below(self.np));
                let p2 = PeerRef::Lit(rng.below(self.np));
                let mut b = self.fold_body_scope(sc, &it, true, Some(&s));
                let extra = if rng.chance(50) { self.gen(rng, depth.saturating_sub(2), &mut b) } else { Node::Null };
                let last = if fl.lastinstr && rng.chance(50) { Some(Box::new(Node::Null)) } else { None };
                let comb_par = fl.parnext && rng.chance(40);
                let mut outer_iters: Vec<Arg> = sc.iters.iter().map(|i| Arg::Var { name: i.clone(), lens: vec![] }).collect();
                let seed = Node::Call { peer: p, service: "svc".into(), fname: format!("seed{id}"), args: outer_iters.clone(), out: Out::Stream(s.clone()) };
                let mut dargs = vec![Arg::Var { name: it.clone(), lens: vec![] }];
                dargs.append(&mut outer_iters);
                let decc = Node::Call { peer: p2, service: "svc".into(), fname: format!("dec{id}"), args: dargs, out: Out::Stream(s.clone()) };
                let guard = Node::xor(
                    Node::Match { l: Arg::Var { name: it.clone(), lens: vec![] }, r: Arg::Num(0), body: Box::new(Node::Null) },
                    decc,
                );
                let bodyc = Node::seq(extra, guard);
                let inner = if comb_par { Node::par(bodyc, Node::Next(it.clone())) } else { Node::seq(bodyc, Node::Next(it.clone())) };
                let core = Node::seq(seed, Node::Fold { iterable: Arg::Var { name: s.clone(), lens: vec![] }, it, body: Box::new(inner), last });
                if sc.in_fold {
                    Node::New { var: s, body: Box::new(core) }
                } else {
                    core
                }
            }
            17 if fl.news => {
                let id = self.id();
                let v = format!("nv{id}");
                let mut b = sc.clone();
                let p = self.peer(rng, sc);
                let mut args = vec![];
                for it in &sc.iters {
                    args.push(Arg::Var { name: it.clone(), lens: vec![] });
                }
                let inner_def = Node::Call { peer: p, service: "svc".into(), fname: format!("f{id}"), args, out: Out::Scalar(v.clone()) };
                b.scalars.push(Var { name: v.clone(), shape: Shape::Plain, fold_depth: sc.iters.len() });
                b.err_ok = false;
                let body = self.gen(rng, depth - 1, &mut b);
                Self::merge_streams(sc, &[&b]);
                Node::New { var: v, body: Box::new(Node::seq(inner_def, body)) }
            }
            18 if fl.vartarget => self.call(rng, sc, "peer"),
            19 if fl.matches && !sc.scalars.is_empty() => {
                // match/mismatch that succeeds: a variable against itself (match) or against a fresh literal (mismatch)
                let v = sc.scalars[rng.below(sc.scalars.len())].clone();
                let mut b = sc.clone();
                b.err_ok = false;
                let body = self.gen(rng, depth - 1, &mut b);
                Self::merge_streams(sc, &[&b]);
                let va = Arg::Var { name: v.name.clone(), lens: vec![] };
                if rng.chance(50) {
                    Node::Match { l: va.clone(), r: va, body: Box::new(body) }
                } else {
                    Node::Mismatch { l: va, r: Arg::Str(format!("nomatch{}", self.id())), body: Box::new(body) }
                }
            }
            20 if fl.scalar_ap => {
                let id = self.id();
                let dst = format!("av{id}");
                let (src, shape) = match self.scalar_arg(rng, sc) {
                    _ if fl.canon && !sc.canons.is_empty() && rng.chance(40) => {
                        // a whole canonical stream stored into a scalar; lenses applied to it later carry the canon's origin
                        let c = sc.canons[rng.below(sc.canons.len())].clone();
                        (Arg::Canon { name: c, lens: vec![] }, Shape::CanonArr)
                    }
                    Some(Arg::Var { name, lens }) if rng.chance(70) => {
                        // the copy keeps what is known about the shape of an unlensed source
                        let sh = if lens.is_empty() { sc.scalars.iter().find(|v| v.name == name).map(|v| v.shape.clone()).unwrap_or(Shape::Lit) } else { Shape::Lit };
                        let sh = if sh == Shape::Iter || sh == Shape::Peer { Shape::Lit } else { sh };
                        (Arg::Var { name, lens }, sh)
                    }
                    Some(a) if rng.chance(70) => (a, Shape::Lit),
                    _ => (Arg::Str(format!("apl{id}")), Shape::Lit),
                };
                sc.scalars.push(Var { name: dst.clone(), shape, fold_depth: sc.iters.len() });
                Node::Ap { src, dst }
            }
            21 if fl.never && !sc.in_fold => Node::Never,
            23 => {
                // a stream name used both globally and `new`-scoped, with `next` inside the `new`: in a later iteration
                // an instruction outside the `new` span writes the global stream while the scoped one is still alive
                let k = self.id();
                let arrv = format!("v{k}");
                let it = format!("it{k}");
                let z = format!("$z{k}");
                let arr = Node::Call { peer: PeerRef::Lit(rng.below(self.np)), service: "svc".into(), fname: format!("arr{k}"), args: vec![], out: Out::Scalar(arrv.clone()) };
                let outside = Node::xor(
                    Node::Match { l: Arg::Var { name: it.clone(), lens: vec![] }, r: Arg::Str(format!("arr{k}-1")), body: Box::new(Node::Ap { src: Arg::Var { name: it.clone(), lens: vec![] }, dst: z.clone() }) },
                    Node::Null,
                );
                let inner_write = if rng.chance(50) {
                    Node::Ap { src: Arg::Var { name: it.clone(), lens: vec![] }, dst: z.clone() }
                } else {
                    let j = self.id();
                    Node::Call { peer: PeerRef::Lit(rng.below(self.np)), service: "svc".into(), fname: format!("f{j}"), args: vec![Arg::Var { name: it.clone(), lens: vec![] }], out: Out::Stream(z.clone()) }
                };
                let scoped = Node::New { var: z.clone(), body: Box::new(Node::seq(inner_write, Node::Next(it.clone()))) };
                sc.scalars.push(Var { name: arrv.clone(), shape: Shape::Arr, fold_depth: sc.iters.len() });
                Node::seq(arr, Node::Fold { iterable: Arg::Var { name: arrv, lens: vec![] }, it, body: Box::new(Node::seq(outside, scoped)), last: None })
            }
            22 if fl.xor => {
                // join under xor: an instruction that reads a value produced in a par sibling on another peer sits in
                // the left branch of an xor; while the value has not arrived it must WAIT, never fail into the right branch
                let i = self.id();
                let y = format!("v{i}");
                let mut iters: Vec<Arg> = sc.iters.iter().map(|x| Arg::Var { name: x.clone(), lens: vec![] }).collect();
                let producer = Node::Call { peer: PeerRef::Lit(rng.below(self.np)), service: "svc".into(), fname: format!("obj{i}"), args: iters.clone(), out: Out::Scalar(y.clone()) };
                let j = self.id();
                let sibling = Node::Call { peer: PeerRef::Lit(rng.below(self.np)), service: "svc".into(), fname: format!("f{j}"), args: iters.clone(), out: Out::None };
                let k = self.id();
                let user_peer = PeerRef::Lit(rng.below(self.np));
                let left = match rng.below(4) {
                    0 => {
                        let it = format!("it{k}");
                        let mut a = vec![Arg::Var { name: it.clone(), lens: vec![] }];
                        a.append(&mut iters.clone());
                        let body = Node::Call { peer: user_peer, service: "svc".into(), fname: format!("f{k}"), args: a, out: Out::None };
                        Node::Fold { iterable: Arg::Var { name: y.clone(), lens: vec![Lens::Field("c".into())] }, it: it.clone(), body: Box::new(Node::seq(body, Node::Next(it))), last: None }
                    }
                    1 => {
                        let mut a = vec![Arg::Var { name: y.clone(), lens: vec![Lens::Field("a".into()), Lens::Field("b".into())] }];
                        a.append(&mut iters.clone());
                        Node::Call { peer: user_peer, service: "svc".into(), fname: format!("f{k}"), args: a, out: Out::None }
                    }
                    2 => Node::Match {
                        l: Arg::Var { name: y.clone(), lens: vec![Lens::Field("f".into())] },
                        r: Arg::Str(format!("obj{i}")),
                        body: Box::new(Node::Call { peer: user_peer, service: "svc".into(), fname: format!("f{k}"), args: iters.clone(), out: Out::None }),
                    },
                    _ => Node::seq(
                        Node::Ap { src: Arg::Var { name: y.clone(), lens: vec![Lens::Field("a".into())] }, dst: format!("av{k}") },
                        Node::Call { peer: user_peer, service: "svc".into(), fname: format!("f{k}"), args: { let mut a = vec![Arg::Var { name: format!("av{k}"), lens: vec![Lens::Field("b".into())] }]; a.append(&mut iters); a }, out: Out::None },
                    ),
                };
                let h = self.id();
                let handler = Node::Call { peer: PeerRef::Lit(rng.below(self.np)), service: "svc".into(), fname: format!("handler{h}"), args: sc.iters.iter().map(|x| Arg::Var { name: x.clone(), lens: vec![] }).collect(), out: Out::None };
                let par = if rng.chance(50) { Node::par(producer, sibling) } else { Node::par(sibling, producer) };
                Node::seq(par, Node::xor(left, handler))
            }
            _ => {
                let kind = if fl.lenses && rng.chance(25) { "obj" } else { "f" };
                self.call(rng, sc, kind)
            }
        };
        let _ = err_ok_in;
        sc.err_ok = false;
        node
    }
}

fn return_node_fold_lens(obj: String, it: String, inner: Node) -> Node {
    Node::Fold { iterable: Arg::Var { name: obj, lens: vec![Lens::Field("c".into())] }, it, body: Box::new(inner), last: None }
}

pub fn generate(rng: &mut Rng, np: usize, flags: &Flags, depth: usize) -> Node {
    let mut g = Gen { np, n: 0, flags: flags.clone(), force: None };
    let mut sc = Scope::default();
    let mut node = g.gen(rng, depth, &mut sc);
    // make sure the features enabled for this history actually occur (a feature that is enabled but never
    // reached explores nothing): append a canon / stream fold / canon fold over a global stream
    fn has(n: &Node, pred: &dyn Fn(&Node) -> bool) -> bool {
        let mut found = false;
        let mut c = n.clone();
        c.walk_mut(&mut |x| {
            if pred(x) {
                found = true;
            }
        });
        found
    }
    if flags.streams && !sc.streams.is_empty() {
        if flags.canon && rng.chance(70) && !has(&node, &|x| matches!(x, Node::Canon { .. })) {
            g.force = Some(8);
            let c = g.gen(rng, 2, &mut sc);
            let follow = if flags.folds && rng.chance(50) {
                g.force = Some(11);
                g.gen(rng, 2, &mut sc)
            } else {
                g.gen(rng, 2, &mut sc)
            };
            node = Node::seq(node, Node::seq(c, follow));
        }
        if flags.sfolds && !flags.frag16 && rng.chance(70) && !has(&node, &|x| matches!(x, Node::Fold { iterable: Arg::Var { name, .. }, .. } if name.starts_with('$'))) {
            g.force = Some(10);
            let f = g.gen(rng, 3, &mut sc);
            node = if rng.chance(70) { Node::seq(node, f) } else { Node::par(node, f) };
        }
    }
    if flags.maps && !sc.maps.is_empty() && rng.chance(60) {
        // stream maps: canonicalize one (into a canon map or a scalar) and fold over the map / its canon
        if flags.canon {
            g.force = Some(14);
            let c = g.gen(rng, 2, &mut sc);
            node = Node::seq(node, c);
        }
        if flags.folds {
            g.force = Some(15);
            let f = g.gen(rng, 3, &mut sc);
            node = Node::seq(node, f);
        }
    }
    if flags.streams && flags.canon && flags.scalar_ap && !sc.streams.is_empty() && rng.chance(45) {
        // canon-derived scalars: the whole canonical stream stored into a scalar, an element selected from it by
        // lens and stored again, both passed on (their tetraplets must keep naming the canon's origin and lens)
        let s = sc.streams[rng.below(sc.streams.len())].clone();
        let i = g.id();
        let cn = format!("#c{i}");
        let p = rng.below(np);
        let whole = format!("av{i}w");
        let head = format!("av{i}h");
        let q = rng.below(np);
        let tail = Node::seq(
            Node::Canon { peer: PeerRef::Lit(p), src: s, dst: cn.clone() },
            Node::seq(
                Node::Ap { src: Arg::Canon { name: cn, lens: vec![] }, dst: whole.clone() },
                Node::seq(
                    Node::Ap { src: Arg::Var { name: whole.clone(), lens: vec![Lens::Idx(0)] }, dst: head.clone() },
                    Node::Call {
                        peer: PeerRef::Lit(q),
                        service: "svc".into(),
                        fname: format!("f{i}"),
                        args: vec![Arg::Var { name: whole, lens: vec![] }, Arg::Var { name: head.clone(), lens: vec![] }, Arg::Var { name: head, lens: vec![Lens::Field("f".into())] }],
                        out: Out::None,
                    },
                ),
            ),
        );
        node = Node::seq(node, tail);
    }
    g.force = None;
    node
}

// ---------------------------------------------------------------------------------------------
// Directed generators (shape-restricted scripts for C18 and C13)
// ---------------------------------------------------------------------------------------------

fn lit_call(peer: usize, fname: String, args: Vec<Arg>, out: Out) -> Node {
    Node::Call { peer: PeerRef::Lit(peer), service: "svc".into(), fname, args, out }
}
fn var(name: &str) -> Arg {
    Arg::Var { name: name.to_string(), lens: vec![] }
}

/// C18: one failing instruction F of a drawn kind inside `(xor F (call P probeE [:error:.$.error_code :error:.$.message ..iters]))`,
/// placed in a drawn context. Variants (uncaught / succeeding left) are derived from the AST by `c18_variant`.
pub fn gen_c18(rng: &mut Rng, np: usize) -> Node {
    let mut n = 0usize;
    let mut id = || {
        n += 1;
        n
    };
    let in_fold = rng.chance(30);
    let it = "it90".to_string();
    let iters: Vec<Arg> = if in_fold { vec![var(&it)] } else { vec![] };
    // prelude values F may use
    let obj_id = id();
    let objv = format!("v{obj_id}");
    let prelude = lit_call(rng.below(np), format!("obj{obj_id}"), iters.clone(), Out::Scalar(objv.clone()));
    let k = id();
    let kind = rng.below(14);
    let fpeer = rng.below(np);
    let itx = if in_fold { " it90" } else { "" };
    let f: Node = match kind {
        0 => Node::Fail { code: 1 + rng.below(900) as i64, msg: format!("boom{k}") },
        1 | 2 => lit_call(fpeer, format!("fail{k}"), iters.clone(), if rng.chance(50) { Out::Scalar(format!("v{k}")) } else { Out::None }),
        3 => {
            if rng.chance(50) {
                Node::Match { l: Arg::Str("a".into()), r: Arg::Str("b".into()), body: Box::new(Node::Null) }
            } else {
                Node::Mismatch { l: var(&objv), r: var(&objv), body: Box::new(Node::Null) }
            }
        }
        4 => {
            let mut a = vec![Arg::Var { name: objv.clone(), lens: vec![Lens::Field("nosuch".into())] }];
            a.extend(iters.clone());
            lit_call(fpeer, format!("f{k}"), a, Out::None)
        }
        5 => Node::Fold {
            iterable: var(&objv),
            it: format!("it{k}"),
            body: Box::new(Node::seq(Node::Null, Node::Next(format!("it{k}")))),
            last: None,
        },
        6 => {
            // index into an object / field of an array
            let mut a = vec![Arg::Var { name: objv.clone(), lens: vec![Lens::Field("c".into()), Lens::Field("x".into())] }];
            a.extend(iters.clone());
            lit_call(fpeer, format!("f{k}"), a, Out::None)
        }
        7 => Node::Ap { src: Arg::Var { name: objv.clone(), lens: vec![Lens::Idx(3)] }, dst: format!("av{k}") },
        // failures of the call triplet itself (peer / service / function taken from a value of the wrong type or
        // through a lens that does not apply), of `fail` with a malformed error object, and of lenses in match / fold
        8 => Node::Raw(format!("(call {objv}.$.a (\"svc\" \"f{k}\") [{itx}])")),
        9 => Node::Raw(format!("(call %init_peer_id% ({objv}.$.c \"f{k}\") [{itx}])")),
        10 => Node::Raw(format!("(call %init_peer_id% (\"svc\" {objv}.$.nosuch) [{itx}])")),
        11 => Node::Raw(format!("(fail {objv})")),
        12 => Node::Raw(format!("(match {objv}.$.nosuch 1 (null))")),
        _ => Node::Raw(format!("(fold {objv}.$.nosuch it{k} (seq (null) (next it{k})))")),
    };
    let pk = id();
    let mut pargs = vec![Arg::ErrCode, Arg::ErrMsg];
    pargs.extend(iters.clone());
    let probe = lit_call(rng.below(np), format!("probeE{pk}"), pargs, Out::None);
    let x = Node::xor(f, probe);
    let core = Node::seq(prelude, x);
    // context
    let mut other = |rng: &mut Rng| {
        let i = id();
        lit_call(rng.below(np), format!("f{i}"), iters.clone(), if rng.chance(50) { Out::Scalar(format!("v{i}")) } else { Out::None })
    };
    let ctx = match rng.below(11) {
        9 => {
            // an earlier par whose one branch failed (and was swallowed because the sibling succeeded)
            let fl = match rng.below(3) {
                0 => Node::Fail { code: 77, msg: "earlier".into() },
                1 => Node::Match { l: Arg::Str("p".into()), r: Arg::Str("q".into()), body: Box::new(Node::Null) },
                _ => { let i = id(); lit_call(fpeer, format!("fail{i}"), iters.clone(), Out::None) }
            };
            Node::seq(Node::par(fl, Node::Null), core)
        }
        10 => {
            // an earlier stream fold one of whose iterations failed (swallowed by the fold)
            let i = id();
            let st = format!("$e{i}");
            let app = lit_call(rng.below(np), format!("f{i}"), iters.clone(), Out::Stream(st.clone()));
            let itn = format!("it{i}");
            let fold = Node::Fold { iterable: var(&st), it: itn.clone(), body: Box::new(Node::seq(Node::Fail { code: 78, msg: "infold".into() }, Node::Next(itn))), last: Some(Box::new(Node::Null)) };
            Node::New { var: st, body: Box::new(Node::seq(Node::seq(app, fold), core)) }
        }
        7 | 8 => {
            // a call on the failing instruction's peer that is still WAITING for a value (join) runs earlier in the
            // same run than the xor: a waiting instruction is not a failure and must not leave traces in :error:
            let i = id();
            let j = id();
            let xw = format!("v{i}");
            let producer = lit_call(rng.below(np), format!("f{i}"), iters.clone(), Out::Scalar(xw.clone()));
            let mut a = vec![var(&xw)];
            a.extend(iters.clone());
            let waiting = lit_call(fpeer, format!("f{j}"), a, Out::None);
            Node::seq(Node::par(producer, Node::Null), if rng.chance(50) { Node::par(waiting, core) } else { Node::seq(Node::par(waiting, Node::Null), core) })
        }
        0 => core,
        1 => Node::seq(other(rng), core),
        2 => Node::seq(core, other(rng)),
        3 => Node::par(core, other(rng)),
        4 => Node::par(other(rng), core),
        5 => Node::xor(Node::Fail { code: 9, msg: "outer".into() }, core),
        _ => Node::New { var: "$tmp".into(), body: Box::new(core) },
    };
    if in_fold {
        let a = id();
        let arrv = format!("v{a}");
        Node::seq(
            lit_call(rng.below(np), format!("arr{a}"), vec![], Out::Scalar(arrv.clone())),
            Node::Fold { iterable: var(&arrv), it: it.clone(), body: Box::new(Node::seq(ctx, Node::Next(it))), last: None },
        )
    } else {
        ctx
    }
}

/// kind "U": the failing instruction left uncaught; kind "S": the left branch replaced by a call that succeeds
pub fn c18_variant(ast: &Node, kind: &str, np: usize) -> Node {
    let mut out = ast.clone();
    out.walk_mut(&mut |node| {
        let replace = match node {
            Node::Xor(l, r) => match (&**l, &**r) {
                (left, Node::Call { fname, .. }) if fname.starts_with("probeE") => Some(((*left).clone(), (**r).clone())),
                _ => None,
            },
            _ => None,
        };
        if let Some((left, probe)) = replace {
            if kind == "U" {
                *node = left;
            } else {
                let args = match &probe {
                    Node::Call { args, .. } => args.iter().filter(|a| matches!(a, Arg::Var { .. })).cloned().collect(),
                    _ => vec![],
                };
                let ok = lit_call(np - 1, "okS1".into(), args, Out::None);
                *node = Node::xor(ok, probe);
            }
        }
    });
    out
}

/// C13: an append phase into `$s` from several peers (calls and aps, possibly under par), then a local canon,
/// a probe of the canon, and a fold over `$s` whose body is a probe call on the folding peer; optionally recursive.
pub fn gen_c13(rng: &mut Rng, np: usize) -> Node {
    let mut n = 0usize;
    let mut id = || {
        n += 1;
        n
    };
    fn appends(rng: &mut Rng, np: usize, depth: usize, id: &mut dyn FnMut() -> usize) -> Node {
        if depth == 0 || rng.chance(30) {
            let i = id();
            return if rng.chance(25) { Node::Ap { src: Arg::Str(format!("l{i}")), dst: "$s".into() } } else { lit_call(rng.below(np), format!("f{i}"), vec![], Out::Stream("$s".into())) };
        }
        let l = appends(rng, np, depth - 1, id);
        let r = appends(rng, np, depth - 1, id);
        if rng.chance(50) {
            Node::par(l, r)
        } else {
            Node::seq(l, r)
        }
    }
    let folder = rng.below(np);
    let app_depth = 1 + rng.below(3);
    let app = appends(rng, np, app_depth, &mut id);
    let recursive = rng.chance(35);
    let body_probe = lit_call(folder, "probeF1".into(), vec![var("it1")], Out::None);
    let body = if recursive {
        let guard = Node::xor(
            Node::Match { l: Arg::Var { name: "it1".into(), lens: vec![Lens::Field("n".into())] }, r: Arg::Num(0), body: Box::new(Node::Null) },
            lit_call(rng.below(np), "rdec1".into(), vec![var("it1")], Out::Stream("$s".into())),
        );
        Node::seq(body_probe, guard)
    } else {
        body_probe
    };
    let comb_par = rng.chance(60);
    let inner = if comb_par { Node::par(body, Node::Next("it1".into())) } else { Node::seq(body, Node::Next("it1".into())) };
    let fold = Node::Fold { iterable: var("$s"), it: "it1".into(), body: Box::new(inner), last: Some(Box::new(Node::Null)) };
    let canon = Node::Canon { peer: PeerRef::Lit(folder), src: "$s".into(), dst: "#c1".into() };
    let probe_c = lit_call(folder, "probeC1".into(), vec![Arg::Canon { name: "#c1".into(), lens: vec![] }], Out::None);
    let tail = Node::seq(canon, Node::seq(probe_c, fold));
    // `par` appends complete as soon as one side does, so the tail may start before all appends are known: intended
    Node::seq(app, tail)
}

/// C18, uncaught variant in a context where the failure surfaces as the run's result:
/// `(seq prelude F)` (inside the same fold if the script has one), without par / outer xor around it.
pub fn c18_uncaught(ast: &Node) -> Option<Node> {
    fn find_core(n: &Node) -> Option<Node> {
        match n {
            Node::Seq(pre, x) => {
                if let Node::Xor(f, p) = &**x {
                    if matches!(&**p, Node::Call { fname, .. } if fname.starts_with("probeE")) {
                        return Some(Node::seq((**pre).clone(), (**f).clone()));
                    }
                }
                find_core(pre).or_else(|| find_core(x))
            }
            Node::Par(l, r) | Node::Xor(l, r) => find_core(l).or_else(|| find_core(r)),
            Node::Match { body, .. } | Node::Mismatch { body, .. } | Node::New { body, .. } => find_core(body),
            Node::Fold { body, .. } => find_core(body),
            _ => None,
        }
    }
    let core = find_core(ast)?;
    if let Node::Seq(arr, fold) = ast {
        if let (Node::Call { fname, .. }, Node::Fold { iterable, it, last, .. }) = (&**arr, &**fold) {
            if fname.starts_with("arr") {
                return Some(Node::seq(
                    (**arr).clone(),
                    Node::Fold { iterable: iterable.clone(), it: it.clone(), body: Box::new(Node::seq(core, Node::Next(it.clone()))), last: last.clone() },
                ));
            }
        }
    }
    Some(core)
}
