//! Oracles against the reference model R (C16, C17), paired caught/uncaught histories (C18),
//! canon and stream-content oracles (C11, C13).
use crate::interp::{self, Tet};
use crate::monitors::{class, new_data_class, Mon};
use crate::refmodel::RCall;
use crate::world::World;
use air_interpreter_data::*;
use std::collections::{BTreeMap, BTreeSet};

fn hash64(s: &str) -> u64 {
    crate::rngx::str_hash(s)
}
fn norm_lens(s: &str) -> String {
    s.chars().filter(|c| *c != '!' && !c.is_whitespace()).collect()
}
fn tets_equal(a: &[Tet], b: &[Tet]) -> bool {
    a.len() == b.len() && a.iter().zip(b.iter()).all(|(x, y)| x.peer == y.peer && x.service == y.service && x.function == y.function && norm_lens(&x.lens) == norm_lens(&y.lens))
}
fn args_match(r: &RCall, args: &[serde_json::Value]) -> bool {
    r.args.len() == args.len() && r.args.iter().zip(args.iter()).all(|(e, a)| e.as_ref().map(|e| e == a).unwrap_or(true))
}

pub fn c16_c17(m: &mut Mon, w: &mut World, idx: usize) {
    if m.rmodel.is_none() {
        m.rmodel = Some(std::rc::Rc::new(crate::refmodel::evaluate(&w.sc, &w.ids)));
    }
    let r = m.rmodel.clone().unwrap();
    if std::env::var("VERIF_TRACE_R").is_ok() && idx == 0 {
        eprintln!("R: supported={} why={} calls:", r.supported, r.why_unsupported);
        for c in r.calls.iter() {
            eprintln!("  R call {} at {} args {:?}", c.fname, c.peer, c.args);
        }
    }
    if m.on("C17") {
        // canon arguments are checked against the peer's own stores and the values' embedded origin: no R needed
        let reqs: Vec<(u32, interp::Req)> = w.runs[idx].out.reqs.iter().map(|(k, v)| (*k, v.clone())).collect();
        for (id, rq) in reqs {
            if crate::monitors4::c17_canon_args(m, w, idx, id, &rq) {
                return;
            }
        }
    }
    if !r.supported {
        m.count(&format!("R_unsupported:{}", r.why_unsupported));
        return;
    }
    let run = &w.runs[idx];
    let me = w.ids[run.peer].clone();
    let eid = run.eid;
    let reqs: Vec<(u32, interp::Req)> = run.out.reqs.iter().map(|(k, v)| (*k, v.clone())).collect();
    for (id, rq) in reqs {
        let same_name: Vec<&RCall> = r.calls.iter().filter(|c| c.fname == rq.function).collect();
        let exact: Vec<&RCall> = same_name.iter().filter(|c| c.peer == me && args_match(c, &rq.args)).cloned().collect();
        if exact.is_empty() {
            let why = if same_name.is_empty() {
                "the sequential reading never reaches this call".to_string()
            } else {
                format!(
                    "the sequential reading makes this call only as {}",
                    same_name.iter().take(3).map(|c| format!("[peer {} args {:?}]", c.peer, c.args)).collect::<Vec<_>>().join(" or ")
                )
            };
            let d = format!("peer {} ({me}) eid {eid}: request {id} for {} with args {:?}: {why}\nscript: {}", w.runs[idx].peer, rq.function, rq.args, w.sc.script);
            m.report(w, Some(idx), "C16", "call-not-in-sequential-reading", d);
            return;
        }
        m.nontrivial.insert(hash64(&format!("{}{:?}", rq.function, rq.args)));
        if m.on("C17") {
            let e = exact[0];
            for (i, exp) in e.tets.iter().enumerate() {
                let Some(exp) = exp else { continue };
                let got = rq.tets.get(i).cloned().unwrap_or_default();
                if !tets_equal(exp, &got) {
                    let d = format!(
                        "peer {} eid {eid}: call {} argument {i} (value {}) carries tetraplets {:?} but its origin is {:?}\nscript: {}",
                        w.runs[idx].peer,
                        rq.function,
                        rq.args.get(i).map(|v| v.to_string()).unwrap_or_default(),
                        got,
                        exp,
                        w.sc.script
                    );
                    m.report(w, Some(idx), "C17", "wrong-tetraplet", d);
                    return;
                }
                if !exp.is_empty() && (!exp[0].function.is_empty() || !exp[0].lens.is_empty()) {
                    m.nontrivial.insert(hash64(&format!("T{:?}", exp)));
                }
            }
        }
    }
    let _ = (class(0), new_data_class(0), BTreeMap::<u8, u8>::new(), BTreeSet::<u8>::new());
    let _: Option<ExecutedState> = None;
}

// ---------------------------------------------------------------------------------------------
// sub-histories (variants of the script run to completion under their own seeded schedule)
// ---------------------------------------------------------------------------------------------
pub fn run_sub(w: &mut World, ast: crate::script::Node, tag: u64) -> Option<World> {
    let mut sc = w.sc.clone();
    let ids: Vec<String> = w.ids.clone();
    sc.script = crate::script::render(&ast, &ids);
    sc.ast = ast;
    sc.prop = "SUB".into();
    sc.profile = "honest".into();
    sc.fault_cfg = BTreeMap::new();
    sc.fault_cfg.insert("dup".into(), 100);
    sc.byz = None;
    if air::parser::parse(&sc.script).is_err() {
        return None;
    }
    let mut rng = crate::rngx::Rng::new(crate::rngx::mix3(w.sc.seed, w.sc.hist, tag));
    let mut sub = World::new(sc, w.keys.clone());
    let mut mon = Mon::new("NONE", sub.peers.len(), m_known_empty(), &sub.sc.ast.clone());
    let mut d = crate::driver::Driver::new(&sub, &mut rng);
    d.run(&mut sub, &mut rng, &mut mon);
    w.stats.shadow_runs += sub.stats.runs;
    Some(sub)
}
fn m_known_empty() -> std::rc::Rc<crate::known::Known> {
    std::rc::Rc::new(crate::known::Known::default())
}

// ---------------- C18 ----------------
pub fn c18(m: &mut Mon, w: &mut World) {
    if w.runs.iter().any(|r| r.out.panic.is_some() || r.taint.contains("forged")) {
        return;
    }
    // the failing instruction (left branch of the xor whose right branch is the probe)
    let mut left: Option<crate::script::Node> = None;
    let mut ast = w.sc.ast.clone();
    ast.walk_mut(&mut |n| {
        if let crate::script::Node::Xor(l, r) = n {
            if matches!(&**r, crate::script::Node::Call { fname, .. } if fname.starts_with("probeE")) {
                left = Some((**l).clone());
            }
        }
    });
    let Some(left) = left else { return };
    let probes: Vec<(serde_json::Value, serde_json::Value, u32)> = w
        .runs
        .iter()
        .flat_map(|r| r.out.reqs.values().filter(|q| q.function.starts_with("probeE")).map(|q| (q.args.first().cloned().unwrap_or_default(), q.args.get(1).cloned().unwrap_or_default(), r.eid)).collect::<Vec<_>>())
        .collect();
    let np = w.sc.np;
    // variant S: the left branch succeeds -> the right branch must never run
    if let Some(s) = run_sub(w, crate::script::c18_variant(&w.sc.ast.clone(), "S", np), 0x5) {
        let bad = s.runs.iter().any(|r| r.out.reqs.values().any(|q| q.function.starts_with("probeE")));
        if bad {
            let d = format!("the right branch of an xor ran although its left branch succeeded\nscript: {}", s.sc.script);
            m.report(w, None, "C18", "right-branch-after-success", d);
            return;
        }
    }
    if probes.is_empty() {
        return;
    }
    // variant U: the same failure left uncaught
    // (in a context where the failure surfaces as the run's result: a failure in one par branch is not reported
    // while the other branch succeeds, and an outer xor would catch it)
    let Some(uast) = crate::script::c18_uncaught(&w.sc.ast.clone()) else { return };
    let Some(u) = run_sub(w, uast, 0x7) else { return };
    let ufails: BTreeSet<(i64, String, char)> = u.runs.iter().filter(|r| matches!(class(r.out.code), 'C' | 'U')).map(|r| (r.out.code, r.out.msg.clone(), class(r.out.code))).collect();
    // inside a fold an uncaught failure stops at the first iteration: compare the probes of that iteration only
    let first_iter: Option<serde_json::Value> = match &w.sc.ast {
        crate::script::Node::Seq(a, f) => match (&**a, &**f) {
            (crate::script::Node::Call { fname, .. }, crate::script::Node::Fold { .. }) if fname.starts_with("arr") => {
                let rq = interp::Req { service: "svc".into(), function: fname.clone(), args: vec![], tets: vec![], arg_hash: String::new() };
                let (_, text) = crate::world::serve(&w.sc, &w.ids, &rq);
                serde_json::from_str::<serde_json::Value>(&text).ok().and_then(|v| v.as_array().and_then(|a| a.first().cloned()))
            }
            _ => None,
        },
        _ => None,
    };
    let probes: Vec<(serde_json::Value, serde_json::Value, u32)> = w
        .runs
        .iter()
        .flat_map(|r| {
            r.out.reqs.values().filter(|q| q.function.starts_with("probeE") && q.args.get(2).cloned() == first_iter).map(|q| (q.args.first().cloned().unwrap_or_default(), q.args.get(1).cloned().unwrap_or_default(), r.eid)).collect::<Vec<_>>()
        })
        .collect();
    let _ = &left;
    for (code, msg, eid) in &probes {
        match 0 {
            _ => {
                let hit = ufails.iter().any(|(uc, um, cl)| *cl == 'C' && code.as_i64() == Some(*uc) && msg.as_str() == Some(um.as_str()));
                if !hit {
                    let only_uncatchable = !ufails.is_empty() && ufails.iter().all(|x| x.2 == 'U');
                    let tag = if ufails.is_empty() {
                        "caught-without-failure"
                    } else if only_uncatchable {
                        "uncatchable-caught"
                    } else {
                        "error-object-differs"
                    };
                    let d = format!(
                        "eid {eid}: inside the xor right branch :error: says code {code} message {msg}; the same failure left uncaught reports {:?}\nscript: {}",
                        ufails.iter().take(4).collect::<Vec<_>>(),
                        w.sc.script
                    );
                    m.report(w, None, "C18", tag, d);
                    return;
                }
            }
        }
    }
    m.nontrivial.insert(hash64(&format!("{:?}{}", probes.iter().map(|p| (p.0.to_string(), p.1.to_string())).collect::<Vec<_>>(), w.sc.script.len())));
}

// ---------------- C11 ----------------
fn canon_values(d: &InterpreterData, c: &air_interpreter_cid::CID<CanonResultCidAggregate>) -> Option<Vec<String>> {
    let agg = d.cid_info.canon_result_store.get(c)?;
    let mut v = vec![];
    for e in &agg.values {
        let el = d.cid_info.canon_element_store.get(e)?;
        v.push(d.cid_info.value_store.get(&el.value)?.get_value().to_string());
    }
    Some(v)
}
pub fn c11(m: &mut Mon, w: &mut World, idx: usize) {
    let an = m.analysis.clone();
    let run = &w.runs[idx];
    if !run.stored {
        return; // the outcome of this run was lost in a crash: its canon never ran as far as the peer's store knows
    }
    let eid = run.eid;
    let peer = run.peer;
    // (a) every call that takes a canonical value sees the same value for the same canon instance, anywhere, any time
    let reqs: Vec<interp::Req> = run.out.reqs.values().cloned().collect();
    for rq in reqs {
        let Some(ci) = an.calls.get(&rq.function) else { continue };
        if ci.args.len() != rq.args.len() {
            continue;
        }
        let ni = ci.iters.len();
        let iter_vals: Vec<serde_json::Value> = rq.args[rq.args.len() - ni..].to_vec();
        for (i, a) in ci.args.iter().enumerate() {
            if let crate::script::Arg::Canon { name, lens } = a {
                if !lens.is_empty() {
                    continue;
                }
                let Some(cn) = an.canons.get(name) else { continue };
                let dc = cn.iters.len().min(iter_vals.len());
                let key = format!("canon|{name}|{}", serde_json::Value::Array(iter_vals[..dc].to_vec()));
                let val = rq.args[i].to_string();
                match m.scratch.get(&key) {
                    Some(prev) if prev[0] != val => {
                        let d = format!("peer {peer} eid {eid}: call {} sees canonical value {val} for {name} but an earlier call ({}) saw {}", rq.function, prev[1], prev[0]);
                        m.report(w, Some(idx), "C11", "canon-differs", d);
                        return;
                    }
                    Some(_) => {
                        m.nontrivial.insert(hash64(&format!("{key}{val}{}", rq.function)));
                    }
                    None => {
                        m.scratch.insert(key, vec![val, format!("{} at peer {peer} eid {eid}", rq.function)]);
                    }
                }
            }
        }
    }
    // (b) content at first execution on the designated peer: the stream values it knew, in its order
    if !new_data_class(w.runs[idx].out.code) {
        return;
    }
    let d = m.decoded(w, idx);
    let run = &w.runs[idx];
    let kin: BTreeSet<String> = crate::monitors::knowledge(&interp::dec(&run.prev)).into_keys().chain(crate::monitors::knowledge(&interp::dec(&run.cur)).into_keys()).collect();
    for (pos, st) in d.trace.iter().enumerate() {
        let ExecutedState::Canon(CanonResult::Executed(c)) = st else { continue };
        if kin.contains(&format!("C{}", c.get_inner())) {
            continue;
        }
        let Some(vals) = canon_values(&d, c) else { continue };
        if vals.is_empty() {
            continue;
        }
        // which stream? all values must be tagged results of calls writing to one single-instance stream without aps
        let mut streams: BTreeSet<String> = BTreeSet::new();
        let mut tagged = true;
        for v in &vals {
            let f = serde_json::from_str::<serde_json::Value>(v).ok().and_then(|j| j.get("f").and_then(|x| x.as_str()).map(|s| s.to_string()));
            match f.and_then(|f| an.calls.get(&f).and_then(|c| c.out_stream.clone())) {
                Some(s) => {
                    streams.insert(s);
                }
                None => tagged = false,
            }
        }
        if !tagged || streams.len() != 1 {
            continue;
        }
        let s = streams.into_iter().next().unwrap();
        if !an.single_instance_streams.contains(&s) || an.streams_with_ap.contains(&s) || an.new_scoped.contains(&s) {
            continue;
        }
        let mut exp: Vec<(u32, usize, String)> = vec![];
        for (i, st2) in d.trace.iter().enumerate().take(pos) {
            if let ExecutedState::Call(CallResult::Executed(ValueRef::Stream { cid, generation })) = st2 {
                if let Some(agg) = d.cid_info.service_result_store.get(cid) {
                    let f = d.cid_info.tetraplet_store.get(&agg.tetraplet_cid).map(|t| t.function_name.clone()).unwrap_or_default();
                    if an.calls.get(&f).and_then(|c| c.out_stream.clone()).as_deref() == Some(s.as_str()) {
                        let g: usize = (*generation).into();
                        let v = d.cid_info.value_store.get(&agg.value_cid).map(|r| r.get_value().to_string()).unwrap_or_default();
                        exp.push((g as u32, i, v));
                    }
                }
            }
        }
        exp.sort();
        let expv: Vec<String> = exp.iter().map(|x| x.2.clone()).collect();
        if expv != vals {
            let dd = format!(
                "peer {peer} eid {eid}: canon at {pos} over {s} holds {vals:?} but the peer knew the stream as {expv:?} (by generation, position)\ntrace: {}",
                interp::show_trace(&d)
            );
            m.report(w, Some(idx), "C11", "canon-content", dd);
            return;
        }
        m.nontrivial.insert(hash64(&format!("content{s}{vals:?}")));
    }
}

// ---------------- C13 ----------------
fn stream_call_values(d: &InterpreterData, upto: usize) -> (Vec<String>, usize) {
    let mut vals = vec![];
    let mut aps = 0;
    for st in d.trace.iter().take(upto) {
        match st {
            ExecutedState::Call(CallResult::Executed(ValueRef::Stream { cid, .. })) => {
                if let Some(agg) = d.cid_info.service_result_store.get(cid) {
                    vals.push(d.cid_info.value_store.get(&agg.value_cid).map(|r| r.get_value().to_string()).unwrap_or_default());
                }
            }
            ExecutedState::Ap(_) => aps += 1,
            _ => {}
        }
    }
    (vals, aps)
}
fn ap_literals(ast: &crate::script::Node) -> Vec<String> {
    let mut v = vec![];
    let mut a = ast.clone();
    a.walk_mut(&mut |n| {
        if let crate::script::Node::Ap { src: crate::script::Arg::Str(s), .. } = n {
            v.push(serde_json::Value::String(s.clone()).to_string());
        }
    });
    v
}
pub fn c13(m: &mut Mon, w: &mut World, idx: usize) {
    // a run whose outcome was lost in a crash never handed its requests to the host
    if !new_data_class(w.runs[idx].out.code) || !w.runs[idx].stored {
        return;
    }
    // white-box oracle: a stream fold ended with more unvisited values than were ever added below its cursor
    // (values at or above the cursor are the fold's to visit; finding F16 covers only the ones below)
    if let Some((_, det)) = w.runs[idx].out.probes.iter().find(|(n, _)| n == "stream_fold_unvisited_values_unexplained") {
        let dd = format!("peer {} eid {}: a stream fold ended leaving values unvisited that sit at or above its cursor: {det}", w.runs[idx].peer, w.runs[idx].eid);
        m.report(w, Some(idx), "C13", "fold-skipped-values-above-cursor", dd);
        return;
    }
    if w.sc.script.contains("$big") {
        return; // size-limit scripts append equal values many times; they have their own oracle (monitors4::c13_limit)
    }
    let d = m.decoded(w, idx);
    let run = &w.runs[idx];
    let eid = run.eid;
    let peer = run.peer;
    let kin: BTreeSet<String> = crate::monitors::knowledge(&interp::dec(&run.prev)).into_keys().chain(crate::monitors::knowledge(&interp::dec(&run.cur)).into_keys()).collect();
    let lits = ap_literals(&w.sc.ast);
    for (pos, st) in d.trace.iter().enumerate() {
        let ExecutedState::Canon(CanonResult::Executed(c)) = st else { continue };
        if kin.contains(&format!("C{}", c.get_inner())) {
            continue;
        }
        let Some(vals) = canon_values(&d, c) else { continue };
        let (calls, aps) = stream_call_values(&d, pos);
        let mut rest = vals.clone();
        let mut fail: Option<String> = None;
        for cv in &calls {
            match rest.iter().position(|x| x == cv) {
                Some(i) => {
                    rest.remove(i);
                }
                None => fail = Some(format!("append {cv} replayed before the canon is missing from the stream")),
            }
        }
        if fail.is_none() {
            if rest.len() != aps {
                fail = Some(format!("{} ap appends were replayed before the canon but the stream holds {} further values {rest:?}", aps, rest.len()));
            } else {
                let uniq: BTreeSet<&String> = rest.iter().collect();
                if uniq.len() != rest.len() || rest.iter().any(|x| !lits.contains(x)) {
                    fail = Some(format!("ap values {rest:?} are duplicated or not literals of the script"));
                }
            }
        }
        if let Some(f) = fail {
            let dd = format!("peer {peer} eid {eid}: local canon at {pos} holds {vals:?}: {f}\ntrace: {}", interp::show_trace(&d));
            m.report(w, Some(idx), "C13", "stream-content", dd);
            return;
        }
        if vals.len() >= 2 {
            m.nontrivial.insert(hash64(&format!("{vals:?}")));
        }
    }
    // fold probes: never for a value that is not in the peer's stream, never twice
    let reqs: Vec<interp::Req> = w.runs[idx].out.reqs.values().filter(|q| q.function.starts_with("probeF")).cloned().collect();
    if !reqs.is_empty() {
        let (calls, _) = stream_call_values(&d, d.trace.len());
        for q in reqs {
            let v = q.args.first().map(|x| x.to_string()).unwrap_or_default();
            let key = format!("probeF|{peer}");
            let seen = m.scratch.entry(key).or_default();
            if seen.contains(&v) {
                let dd = format!("peer {peer} eid {eid}: the fold visited stream value {v} a second time");
                m.report(w, Some(idx), "C13", "visited-twice", dd);
                return;
            }
            seen.push(v.clone());
            if !calls.contains(&v) && !lits.contains(&v) {
                let dd = format!("peer {peer} eid {eid}: the fold visited {v}, which is not a value of the stream in the peer's data");
                m.report(w, Some(idx), "C13", "visited-foreign-value", dd);
                return;
            }
        }
    }
}
/// at quiescence of a clean lossless history every stream value in the folding peer's data has been visited exactly once
pub fn c13_end(m: &mut Mon, w: &mut World) {
    if !w.quiescent() || w.sc.profile != "honest" || w.runs.iter().any(|r| r.out.code != 0 || r.taint.contains("forged")) {
        return;
    }
    if ["drop", "crash_volatile", "partition_lossy", "rollback"].iter().any(|k| w.sc.fault_cfg.get(*k).cloned().unwrap_or(0) > 0) {
        return;
    }
    let Some(ci) = m.analysis.calls.get("probeF1").cloned() else { return };
    let crate::script::PeerRef::Lit(folder) = ci.peer else { return };
    let d = interp::dec(&w.peers[folder].store);
    // only if the folding peer reached the fold (its canon is executed)
    if !d.trace.iter().any(|s| matches!(s, ExecutedState::Fold(_))) {
        return;
    }
    let (calls, aps) = stream_call_values(&d, d.trace.len());
    let seen = m.scratch.get(&format!("probeF|{folder}")).cloned().unwrap_or_default();
    let missing: Vec<&String> = calls.iter().filter(|c| !seen.contains(c)).collect();
    if !missing.is_empty() || seen.len() != calls.len() + aps {
        let dd = format!(
            "at quiescence the folding peer {folder} holds {} call-appended and {aps} ap-appended stream values but its fold visited {} values; not visited: {missing:?}\ntrace: {}",
            calls.len(),
            seen.len(),
            interp::show_trace(&d)
        );
        // attribute to the folding peer's last run (its taint carries the probes of its whole ancestry)
        let last = w.peers[folder].runs.last().cloned();
        m.report(w, last, "C13", "fold-missed-values", dd);
    } else if seen.len() >= 2 {
        m.nontrivial.insert(hash64(&format!("end{seen:?}")));
        m.count("c13_quiescent_folds_checked");
    }
}
