mod byz;
mod driver;
mod interp;
mod known;
mod monitors;
mod monitors2;
mod monitors3;
mod monitors4;
mod script2;
mod script3;
mod genstats;
mod fuzz;
mod refmodel;
mod analysis;
mod profiles;
mod rngx;
mod script;
mod tamper;
mod world;

use monitors::{Mon, Violation};
use rngx::{mix3, Rng};
use serde::{Deserialize, Serialize};
use std::collections::{BTreeMap, BTreeSet};
use std::io::Write;
use std::rc::Rc;
use world::{Ev, Scenario, World};

#[global_allocator]
static ALLOC: interp::CountingAlloc = interp::CountingAlloc;

const MAX_PEERS: usize = 5;

fn verif_dir() -> String {
    std::env::var("VERIF_DIR").unwrap_or_else(|_| "/verif".into())
}

#[derive(Serialize, Deserialize, Clone)]
pub struct ReplayFile {
    pub prop: String,
    pub tag: String,
    pub detail: String,
    pub seed: u64,
    pub hist: u64,
    pub hash_seed: u64,
    pub scenario: Scenario,
    pub events: Vec<(u32, Ev)>,
    #[serde(default)]
    pub minimised: bool,
    #[serde(default)]
    pub original_events: usize,
}

pub struct HistOut {
    pub sc: Scenario,
    pub events: Vec<(u32, Ev)>,
    pub viol: Vec<Violation>,
    pub known_hits: Vec<Violation>,
    pub nontrivial: BTreeSet<u64>,
    pub stats: world::Stats,
    pub digest: String,
    pub gen_invalid: Option<String>,
    pub capped: u32,
    pub counters: BTreeMap<String, u64>,
    pub skipped: u32,
    pub interleaving: u64,
    pub states: Vec<u64>,
}

fn finish(mut w: World, mut mon: Mon, seed: u64, hist: u64) -> HistOut {
    let mut srng = Rng::new(mix3(seed, hist, 0xE0D));
    mon.at_end(&mut w, &mut srng);
    let mut il = String::new();
    for (_, e) in &w.events {
        if let Ev::Run { peer, msg, feed, .. } = e {
            il.push_str(&format!("{peer}:{msg:?}:{feed:?};"));
        }
    }
    let states: Vec<u64> = w
        .runs
        .iter()
        .filter(|r| monitors::new_data_class(r.out.code))
        .map(|r| {
            let d = interp::dec(&r.out.data);
            let s: String = d
                .trace
                .iter()
                .map(|s| match s {
                    air_interpreter_data::ExecutedState::Call(air_interpreter_data::CallResult::RequestSentBy(_)) => "sent".to_string(),
                    x => format!("{x}"),
                })
                .collect();
            rngx::str_hash(&s)
        })
        .collect();
    HistOut {
        sc: w.sc.clone(),
        events: w.events.clone(),
        viol: mon.viol,
        known_hits: mon.known_hits,
        nontrivial: mon.nontrivial,
        stats: w.stats.clone(),
        digest: mon.digest,
        gen_invalid: mon.gen_invalid,
        capped: mon.capped,
        counters: mon.counters,
        skipped: w.skipped,
        interleaving: rngx::str_hash(&il),
        states,
    }
}

pub fn run_history_inner(prop: &str, seed: u64, hist: u64, keys: &Rc<Vec<interp::Keys>>, known: &Rc<known::Known>) -> HistOut {
    let mut rng = Rng::new(mix3(seed, rngx::str_hash(prop), hist));
    let ids: Vec<String> = keys.iter().map(|k| k.id.clone()).collect();
    let sc = profiles::build(prop, seed, hist, &mut rng, &ids);
    if let Err(e) = air::parser::parse(&sc.script) {
        eprintln!("HARNESS-ERROR: generated script does not parse (seed {seed} hist {hist}): {e}\n{}", sc.script);
        std::process::exit(2);
    }
    let np = sc.np;
    if std::env::var("VERIF_TRACE").is_ok() {
        eprintln!("script: {}\nprofile {} sched {} faults {:?}", sc.script, sc.profile, sc.sched, sc.fault_cfg);
    }
    let sub_keys = Rc::new(sub_keys(keys, np));
    let mut w = World::new(sc, sub_keys);
    let mut mon = Mon::new(prop, w.peers.len(), known.clone(), &w.sc.ast.clone());
    let mut d = driver::Driver::new(&w, &mut rng);
    if w.sc.fault_cfg.contains_key("byz") {
        let b = rng.below(np);
        d.byz = Some(b);
        w.sc.byz = Some(b);
    }
    d.run(&mut w, &mut rng, &mut mon);
    finish(w, mon, seed, hist)
}

fn sub_keys(keys: &Rc<Vec<interp::Keys>>, np: usize) -> Vec<interp::Keys> {
    // participants 0..np, then the extra peers (observers) taken from the tail of the cached key list
    let mut v = vec![];
    for i in 0..np {
        v.push(clone_keys(&keys[i]));
    }
    for j in 0..world::EXTRA_PEERS {
        v.push(clone_keys(&keys[MAX_PEERS + j]));
    }
    v
}
fn clone_keys(k: &interp::Keys) -> interp::Keys {
    interp::Keys { kp: k.kp.clone(), id: k.id.clone(), secret: k.secret.clone(), format: k.format }
}

pub fn replay_history_inner(rf: &ReplayFile, keys: &Rc<Vec<interp::Keys>>, known: &Rc<known::Known>) -> HistOut {
    let sc = rf.scenario.clone();
    let np = sc.np;
    let sub = Rc::new(sub_keys(keys, np));
    let mut w = World::new(sc, sub);
    let mut mon = Mon::new(&rf.prop, w.peers.len(), known.clone(), &w.sc.ast.clone());
    for (eid, ev) in &rf.events {
        if mon.stop {
            break;
        }
        if let Some(idx) = w.apply(*eid, ev) {
            mon.after_run(&mut w, idx);
        }
    }
    finish(w, mon, rf.seed, rf.hist)
}

fn make_keys() -> Rc<Vec<interp::Keys>> {
    Rc::new(world::all_keys(MAX_PEERS, 0))
}

// ------------------------------------------------------------------ worker
#[derive(Serialize, Deserialize, Default)]
struct WorkerOut {
    hists: u64,
    runs: u64,
    shadow_runs: u64,
    events: u64,
    sim_time: u64,
    codes: BTreeMap<String, u64>,
    faults_cfg: BTreeMap<String, u64>,
    faults_fired: BTreeMap<String, u64>,
    probes: BTreeMap<String, u64>,
    counters: BTreeMap<String, u64>,
    sched: BTreeMap<String, u64>,
    profiles: BTreeMap<String, u64>,
    viol: Vec<ReplayFile>,
    known: Vec<(String, String, u64)>, // (finding, tag, hist)
    nontrivial: Vec<u64>,
    scripts: Vec<u64>,
    interleavings: Vec<u64>,
    states: Vec<u64>,
    samples: Vec<serde_json::Value>,
    digests: BTreeMap<u64, String>,
    gen_invalid: u64,
    gen_invalid_examples: Vec<String>,
    capped: u64,
    skipped: u64,
}

fn check_shim() {
    // the hash seam must be in effect: two maps built in this process must iterate as the seed dictates,
    // which we verify by comparing with a child-independent expectation: same seed => same order across two maps
    if std::env::var("VERIF_NO_SHIM").is_ok() {
        return;
    }
    let ld = std::env::var("LD_PRELOAD").unwrap_or_default();
    if !ld.contains("libverifrand") {
        eprintln!("HARNESS-ERROR: worker started without the getrandom shim (LD_PRELOAD={ld})");
        std::process::exit(2);
    }
}

fn set_limits() {
    unsafe {
        let lim = libc::rlimit { rlim_cur: 6 << 30, rlim_max: 6 << 30 };
        libc::setrlimit(libc::RLIMIT_AS, &lim);
    }
}

fn worker(args: &[String]) {
    // sim worker PROP SEED START STRIDE COUNT OUTFILE JOURNAL
    let prop = &args[0];
    let seed: u64 = args[1].parse().unwrap();
    let start: u64 = args[2].parse().unwrap();
    let stride: u64 = args[3].parse().unwrap();
    let count: u64 = args[4].parse().unwrap();
    let outfile = &args[5];
    let journal = &args[6];
    let deadline_s: u64 = args.get(7).and_then(|s| s.parse().ok()).unwrap_or(3600);
    check_shim();
    set_limits();
    interp::install_panic_hook();
    let keys = make_keys();
    let known = Rc::new(known::Known::load(&format!("{}/known_findings.json", verif_dir())));
    let hash_seed: u64 = std::env::var("VERIF_HASH_SEED").ok().and_then(|s| s.parse().ok()).unwrap_or(0);
    let t0 = std::time::Instant::now();
    let mut out = WorkerOut::default();
    let mut nontrivial = BTreeSet::new();
    let mut scripts = BTreeSet::new();
    let mut inter = BTreeSet::new();
    let mut states = BTreeSet::new();
    let mut jf = std::fs::OpenOptions::new().create(true).append(true).open(journal).unwrap();
    std::env::set_var("VERIF_JOURNAL", journal);
    let mut i = start;
    let mut done = 0;
    while done < count {
        if t0.elapsed().as_secs() >= deadline_s {
            break;
        }
        writeln!(jf, "{i}").ok();
        jf.flush().ok();
        unsafe {
            // watchdog in CPU time of this process (a loaded machine must not turn a slow history into a "hang"),
            // backed by a generous wall-clock alarm
            interp::cpu_watchdog(120);
            libc::alarm(1800);
        }
        let h = run_history(prop, seed, i, &keys, &known);
        unsafe {
            interp::cpu_watchdog(0);
            libc::alarm(0);
        }
        out.hists += 1;
        out.runs += h.stats.runs;
        out.shadow_runs += h.stats.shadow_runs;
        out.events += h.stats.events;
        out.sim_time += h.stats.sim_time;
        for (k, v) in &h.stats.codes {
            *out.codes.entry(k.clone()).or_default() += v;
        }
        for (k, v) in &h.stats.faults_fired {
            *out.faults_fired.entry(k.clone()).or_default() += v;
        }
        for (k, _) in &h.sc.fault_cfg {
            *out.faults_cfg.entry(k.clone()).or_default() += 1;
        }
        for (k, v) in &h.stats.probes {
            *out.probes.entry(k.clone()).or_default() += v;
        }
        for (k, v) in &h.counters {
            *out.counters.entry(k.clone()).or_default() += v;
        }
        *out.sched.entry(h.sc.sched.clone()).or_default() += 1;
        *out.profiles.entry(h.sc.profile.clone()).or_default() += 1;
        if let Some(g) = &h.gen_invalid {
            out.gen_invalid += 1;
            if out.gen_invalid_examples.len() < 3 {
                out.gen_invalid_examples.push(format!("hist {i}: {g}\n{}", h.sc.script));
            }
        }
        if h.capped > 0 {
            out.capped += 1;
        }
        out.skipped += h.skipped as u64;
        nontrivial.extend(h.nontrivial.iter().cloned());
        scripts.insert(rngx::str_hash(&h.sc.script));
        inter.insert(h.interleaving ^ rngx::str_hash(&h.sc.script));
        states.extend(h.states.iter().cloned());
        // byte-offset corruption acts on the encoded bytes, whose internal map order legitimately differs between
        // hash seeds: such histories are "same inputs" only within one process (in-process re-execution covers them)
        if !h.sc.fault_cfg.contains_key("corrupt") {
            out.digests.insert(i, h.digest.clone());
        } else {
            out.digests.insert(i, format!("X{}", h.digest)); // kept for the simulator's own determinism proof only
        }
        for k in &h.known_hits {
            if out.known.len() < 2000 {
                out.known.push((k.known.clone().unwrap_or_default(), format!("{}:{}", k.prop, k.tag), i));
            }
        }
        for v in &h.viol {
            if out.viol.len() < 8 {
                out.viol.push(ReplayFile {
                    prop: v.prop.clone(),
                    tag: v.tag.clone(),
                    detail: v.detail.clone(),
                    seed,
                    hist: i,
                    hash_seed: hist_hash_seed(seed, i),
                    scenario: h.sc.clone(),
                    events: h.events.clone(),
                    minimised: false,
                    original_events: h.events.len(),
                });
            }
        }
        if out.samples.len() < 2 && h.stats.runs >= 4 {
            out.samples.push(serde_json::json!({
                "hist": i, "script": h.sc.script, "peers": h.sc.np, "profile": h.sc.profile, "sched": h.sc.sched,
                "faults_configured": h.sc.fault_cfg, "host_feed": h.sc.host_feed,
                "events": h.events.iter().take(40).map(|(e, ev)| format!("{e}: {}", serde_json::to_string(ev).unwrap())).collect::<Vec<_>>(),
                "codes": h.stats.codes,
            }));
        }
        i += stride;
        done += 1;
    }
    out.nontrivial = nontrivial.into_iter().collect();
    out.scripts = scripts.into_iter().collect();
    out.interleavings = inter.into_iter().collect();
    out.states = states.into_iter().collect();
    std::fs::write(outfile, serde_json::to_vec(&out).unwrap()).unwrap();
}

// ------------------------------------------------------------------ replay / minimise
fn load_replay(path: &str) -> ReplayFile {
    let s = std::fs::read_to_string(path).unwrap_or_else(|e| {
        eprintln!("HARNESS-ERROR: cannot read replay file {path}: {e}");
        std::process::exit(2);
    });
    serde_json::from_str(&s).unwrap_or_else(|e| {
        eprintln!("HARNESS-ERROR: replay file {path} does not parse: {e}");
        std::process::exit(2);
    })
}

/// returns the first violation matching (prop, tag) if the replay reproduces it
fn reproduces(rf: &ReplayFile, keys: &Rc<Vec<interp::Keys>>, known: &Rc<known::Known>, any_known: bool) -> Option<Violation> {
    let h = replay_history(rf, keys, known);
    let all: Vec<&Violation> = if any_known { h.viol.iter().chain(h.known_hits.iter()).collect() } else { h.viol.iter().collect() };
    all.into_iter().find(|v| v.prop == rf.prop && v.tag == rf.tag).cloned()
}

fn minimise(mut rf: ReplayFile, keys: &Rc<Vec<interp::Keys>>, known: &Rc<known::Known>, any_known: bool) -> ReplayFile {
    let t0 = std::time::Instant::now();
    let mut budget = 1500;
    let orig = rf.events.len();
    // 1. delta-debug the event list
    let mut chunk = (rf.events.len() / 2).max(1);
    while chunk >= 1 && budget > 0 && t0.elapsed().as_secs() < 60 {
        let mut i = 0;
        let mut progressed = false;
        while i < rf.events.len() && budget > 0 {
            let mut cand = rf.clone();
            let end = (i + chunk).min(cand.events.len());
            cand.events.drain(i..end);
            budget -= 1;
            if !cand.events.is_empty() && reproduces(&cand, keys, known, any_known).is_some() {
                rf = cand;
                progressed = true;
            } else {
                i += chunk;
            }
        }
        if chunk == 1 && !progressed {
            break;
        }
        if !progressed {
            chunk /= 2;
        }
    }
    // 1b. drop Note events (no transition) and simplify runs: remove feed ids one at a time
    rf.events.retain(|(_, e)| !matches!(e, Ev::Note { .. }));
    // 2. shrink the script: replace subtrees by (null)
    let ids: Vec<String> = {
        let np = rf.scenario.np;
        sub_keys(keys, np).into_iter().map(|k| k.id).collect()
    };
    let mut progress = true;
    while progress && budget > 0 && t0.elapsed().as_secs() < 90 {
        progress = false;
        let n = rf.scenario.ast.count();
        for target in 0..n {
            if budget == 0 {
                break;
            }
            let mut cand = rf.clone();
            let mut k = 0usize;
            let mut changed = false;
            cand.scenario.ast.walk_mut(&mut |node| {
                if k == target && !matches!(node, script::Node::Null | script::Node::Next(_)) {
                    *node = script::Node::Null;
                    changed = true;
                }
                k += 1;
            });
            if !changed {
                continue;
            }
            cand.scenario.script = script::render(&cand.scenario.ast, &ids);
            if air::parser::parse(&cand.scenario.script).is_err() {
                continue;
            }
            budget -= 1;
            if reproduces(&cand, keys, known, any_known).is_some() {
                rf = cand;
                progress = true;
                break;
            }
        }
    }
    // 3. single-event removal once more after the script shrank
    let mut i = 0;
    while i < rf.events.len() && budget > 0 {
        let mut cand = rf.clone();
        cand.events.remove(i);
        budget -= 1;
        if !cand.events.is_empty() && reproduces(&cand, keys, known, any_known).is_some() {
            rf = cand;
        } else {
            i += 1;
        }
    }
    if let Some(v) = reproduces(&rf, keys, known, any_known) {
        rf.detail = v.detail;
    }
    rf.minimised = true;
    rf.original_events = orig;
    rf
}

fn cmd_replay(path: &str) -> i32 {
    interp::install_panic_hook();
    let rf = load_replay(path);
    let keys = make_keys();
    let known = Rc::new(known::Known::load(&format!("{}/known_findings.json", verif_dir())));
    let any_known = std::env::var("VERIF_REPLAY_KNOWN").is_ok();
    let h = replay_history(&rf, &keys, &known);
    println!("replay of {path}: {} events applied, {} skipped, {} runs", h.events.len(), h.skipped, h.stats.runs);
    for (i, (eid, e)) in rf.events.iter().enumerate() {
        if i < 60 {
            println!("  ev {eid}: {}", serde_json::to_string(e).unwrap());
        }
    }
    println!("script: {}", rf.scenario.script);
    let mut found = false;
    for v in h.viol.iter().chain(if any_known { h.known_hits.iter() } else { [].iter() }) {
        println!("REPRODUCED property={} tag={} eid={}\n{}", v.prop, v.tag, v.eid, v.detail);
        if v.prop == rf.prop && v.tag == rf.tag {
            found = true;
        }
    }
    for v in &h.known_hits {
        println!("KNOWN-FINDING: property={} {} (tag {})", v.prop, v.known.clone().unwrap_or_default(), v.tag);
    }
    if found {
        println!("VIOLATION property={} replay={}", rf.prop, path);
        1
    } else {
        println!("replay did not reproduce {}:{}", rf.prop, rf.tag);
        0
    }
}

fn cmd_minimise(path: &str, out: &str) -> i32 {
    interp::install_panic_hook();
    let rf = load_replay(path);
    let keys = make_keys();
    let known = Rc::new(known::Known::load(&format!("{}/known_findings.json", verif_dir())));
    let any_known = std::env::var("VERIF_REPLAY_KNOWN").is_ok();
    if reproduces(&rf, &keys, &known, any_known).is_none() {
        eprintln!("minimise: the unminimised event list does not reproduce {}:{}", rf.prop, rf.tag);
        return 3;
    }
    let m = minimise(rf, &keys, &known, any_known);
    std::fs::write(out, serde_json::to_string_pretty(&m).unwrap()).unwrap();
    println!("minimised {} -> {} events, script {} nodes", m.original_events, m.events.len(), m.scenario.ast.count());
    0
}

// ------------------------------------------------------------------ parent
struct Tier {
    hists: u64,
    wall_s: u64,
}
fn tier_for(prop: &str, tier: &str) -> Tier {
    let base: u64 = match prop {
        "C07" => 12000,
        "C08" => 8000,
        "C03" => 15000,
        "C20" => 12000,
        "C12" => 15000,
        _ => 25000,
    };
    if tier == "thorough" {
        // sized so that an idle 16-core machine finishes the whole count inside the wall cap: what the thorough tier
        // explores is then the same set of histories on every run (the cap only ever cuts it short on a slower box)
        Tier { hists: base * 8, wall_s: 900 }
    } else {
        Tier { hists: base, wall_s: 100 }
    }
}

fn spawn_worker(exe: &str, prop: &str, seed: u64, start: u64, stride: u64, count: u64, out: &str, journal: &str, hash_seed: u64, deadline: u64) -> std::process::Child {
    let shim = format!("{}/shim/libverifrand.so", verif_dir());
    std::process::Command::new(exe)
        .args(["worker", prop, &seed.to_string(), &start.to_string(), &stride.to_string(), &count.to_string(), out, journal, &deadline.to_string()])
        .env("LD_PRELOAD", shim)
        .env("VERIF_HASH_SEED", "0")
        .env("VERIF_HASH_SALT", hash_seed.to_string())
        .stdout(std::process::Stdio::null())
        .spawn()
        .expect("spawn worker")
}

fn level_of(prop: &str) -> &'static str {
    match prop {
        "C01" | "C06" | "C14" | "C15" => "fault_enumeration",
        _ => "exploration",
    }
}

fn rule_of(prop: &str) -> String {
    let specific = match prop {
        "C01" => "non-trivial: a forged/corrupted message, a mutated script, malformed call results or a boundary-valued service result (profile `odd`) reached an interpreter invocation; distinct by (result code, message prefix) of that invocation",
        "C02" => "non-trivial: a run whose outcome class was checked; distinct by (class, code, size of previous data / trace length)",
        "C03" => "non-trivial: produced data holding results of >=2 peers, all of whose signatures were verified and which two shadow peers accepted; distinct by per-peer result counts and trace length",
        "C04" => "non-trivial: a run merging a delivered message into non-empty previous data; distinct by (sizes, peer)",
        "C05" => "non-trivial: peer data with >=1 consumed result after >=3 runs, all consumed results found exactly once; distinct by (peer, consumed count, trace length)",
        "C06" => "non-trivial: a run handing out >=2 request ids, or a bogus-id run compared against its twin; distinct by (peer, max id, count)",
        "C07" => "non-trivial: re-delivery variants of a run with non-empty previous AND current data and non-empty trace; distinct by the resulting trace",
        "C09" => "non-trivial: a non-failing run with non-empty previous and current data; distinct by the set of content ids in the output",
        "C10" => "non-trivial: produced trace containing at least one par or fold entry; distinct by structural shape string",
        "C19" => "non-trivial: a run with next peers or call requests; distinct by (peer, next peers, request ids)",
        "C08" => "non-trivial: a history whose >=3 data blobs with >=2 distinct results were merged in 3 orders, one grouping and at a participant; distinct by the set of content ids",
        "C11" => "non-trivial: a canon instance whose value was seen by a second call (another peer or a later time) and compared, or a first canon execution whose content was checked against the stream; distinct by canon instance, value and reader",
        "C12" => "non-trivial: a run in which a stream held values of the previous data and values that came only with the current data; distinct by the per-stream (generation, content id) lists",
        "C13" => "non-trivial: a local canon over >=2 appends checked against the replayed appends, a quiescent fold whose visits were compared with the stream, or an n x m append script at the stream size limit whose length / limit error was checked; distinct by value lists resp. (n, m)",
        "C14" => "non-trivial: a forged message delivered to an honest peer and either rejected as required or compared position by position with its untampered twin; distinct by (op kinds, result code / trace length)",
        "C15" => "non-trivial: an equivocation (incomparable multisets) that was rejected, or a nested pair with different sizes whose kept signature was checked; distinct by (peer, set sizes)",
        "C16" | "C17" => "non-trivial: a call request matched against the reference evaluator (C17: with a non-literal origin or a lens), or (C17) a whole canon-stream argument whose element tetraplets were checked against the CID stores and the values' embedded origin; distinct by (function, arguments) resp. expected tetraplets / (function, peer) of canon elements",
        "C18" => "non-trivial: a history in which the xor right branch ran and its (error_code, message) was compared with the uncaught variant; distinct by the compared pairs and script size",
        "C20" => "non-trivial: a history whose digests agreed under both hash-seed families, or a run with >=2 requests/next peers (or a 30000) re-executed in-process; distinct by history resp. outcome",
        "C21" => "non-trivial: a run whose current data carried a stamped version, accepted or rejected as required; distinct by (version, receiving peer, size of its previous data)",
        "C22" => "non-trivial: a limit configuration evaluated against a run (hard reject, or soft flags + equality with the unlimited twin); distinct by (mode, limits, exceeded set, script and data sizes)",
        _ => "non-trivial: a history that executed >=4 interpreter runs; distinct by script and interleaving",
    };
    format!("histories are generated from (VERIF_SEED, property, index) by the grammar-directed script generator and the seeded scheduler/fault injector (DESIGN.md 2); {specific}")
}

fn cmd_run(prop: &str, tier: &str, seed: u64, workers: u64, hists_override: Option<u64>) -> i32 {
    let t0 = std::time::Instant::now();
    let exe = std::env::current_exe().unwrap().to_string_lossy().to_string();
    let vd = verif_dir();
    let t = tier_for(prop, tier);
    let total = hists_override.unwrap_or(t.hists);
    let budget_override: Option<u64> = std::env::var("VERIF_BUDGET_S").ok().and_then(|s| s.parse().ok());
    let wall = budget_override.unwrap_or(t.wall_s);
    let tmp = format!("{vd}/replays/.work-{prop}-{}", std::process::id());
    std::fs::create_dir_all(&tmp).unwrap();
    std::fs::create_dir_all(format!("{vd}/evidence")).unwrap();
    let known = known::Known::load(&format!("{vd}/known_findings.json"));
    let per = (total + workers - 1) / workers;
    // launch
    let mut kids = vec![];
    for wi in 0..workers {
        let out = format!("{tmp}/out-{wi}.json");
        let j = format!("{tmp}/journal-{wi}");
        let hs = std::env::var("VERIF_HASH_SALT").ok().and_then(|s| s.parse().ok()).unwrap_or(0u64); // same salt for all workers
        kids.push((wi, spawn_worker(&exe, prop, seed, wi, workers, per, &out, &j, hs, wall), out, j, wi, per, hs));
    }
    let mut agg = WorkerOut::default();
    let mut nontrivial = BTreeSet::new();
    let mut scripts = BTreeSet::new();
    let mut inter = BTreeSet::new();
    let mut states = BTreeSet::new();
    let mut deaths: Vec<(u64, String)> = vec![];
    let mut harness_error = false;
    let mut queue: Vec<_> = kids.into_iter().collect();
    while let Some((wi, mut child, out, j, start, count, hs)) = queue.pop() {
        let st = child.wait().expect("wait");
        let mut restart: Option<(u64, u64)> = None;
        if !st.success() {
            if st.code() == Some(2) {
                harness_error = true;
            } else {
                // the worker died (abort, signal, watchdog): the journal names the history
                let jl = std::fs::read_to_string(&j).unwrap_or_default();
                let last: Option<u64> = jl.lines().filter(|l| *l != "torn").last().and_then(|l| l.parse().ok());
                let torn = jl.lines().last() == Some("torn");
                if let Some(h) = last {
                    use std::os::unix::process::ExitStatusExt;
                    if torn {
                        // the peer's durable store had been damaged in place: outside C01's domain (previous data
                        // "the interpreter itself produced"); named, counted, never a violation
                        println!("note: history {h} killed its worker after a torn-store fault (status {:?} signal {:?}); outside the property's domain", st.code(), st.signal());
                    } else {
                        deaths.push((h, format!("worker died: status {:?} signal {:?}", st.code(), st.signal())));
                    }
                    let done = (h - start) / workers + 1;
                    if done < count && deaths.len() < 20 {
                        restart = Some((h + workers, count - done));
                    }
                } else {
                    harness_error = true;
                }
            }
        }
        if let Ok(b) = std::fs::read(&out) {
            if let Ok(o) = serde_json::from_slice::<WorkerOut>(&b) {
                merge(&mut agg, o, &mut nontrivial, &mut scripts, &mut inter, &mut states);
            }
        }
        if let Some((ns, nc)) = restart {
            let out2 = format!("{out}.r{}", deaths.len());
            let j2 = format!("{j}.r{}", deaths.len());
            let remaining = wall.saturating_sub(t0.elapsed().as_secs()).max(5);
            let c = spawn_worker(&exe, prop, seed, ns, workers, nc, &out2, &j2, hs, remaining);
            queue.push((wi, c, out2, j2, ns, nc, hs));
        }
    }
    if harness_error {
        eprintln!("HARNESS-ERROR: a worker reported a harness error (see stderr above)");
        let _ = std::fs::remove_dir_all(&tmp);
        return 2;
    }
    // C20: second pass under different hash seeds, compare per-history digests
    let mut c20_mismatch: Vec<u64> = vec![];
    let mut c20_addr_violation: Option<String> = None;
    if prop == "C20" {
        let mut kids = vec![];
        for wi in 0..workers {
            let out = format!("{tmp}/outB-{wi}.json");
            let j = format!("{tmp}/journalB-{wi}");
            let hs = 1 + std::env::var("VERIF_HASH_SALT").ok().and_then(|s| s.parse().ok()).unwrap_or(0u64); // the other hash-seed family
            kids.push((spawn_worker(&exe, prop, seed, wi, workers, per, &out, &j, hs, wall), out));
        }
        let mut digests_b: BTreeMap<u64, String> = BTreeMap::new();
        for (mut c, out) in kids {
            let _ = c.wait();
            if let Ok(b) = std::fs::read(&out) {
                if let Ok(o) = serde_json::from_slice::<WorkerOut>(&b) {
                    digests_b.extend(o.digests);
                }
            }
        }
        let mut addr_only = 0u64;
        let mut cid_err_only = 0u64;
        for (h, d) in &agg.digests {
            if d.starts_with('X') {
                continue;
            }
            if let Some(d2) = digests_b.get(h) {
                if d != d2 {
                    // strict : addresses masked : addresses masked and code-8 messages dropped
                    let p1: Vec<&str> = d.split(':').collect();
                    let p2: Vec<&str> = d2.split(':').collect();
                    if p1.len() == 3 && p2.len() == 3 && p1[1] == p2[1] {
                        addr_only += 1;
                    } else if p1.len() == 3 && p2.len() == 3 && p1[2] == p2[2] {
                        cid_err_only += 1;
                    } else {
                        c20_mismatch.push(*h);
                    }
                } else {
                    nontrivial.insert(*h ^ 0xC20);
                }
            }
        }
        if cid_err_only > 0 {
            let taint = BTreeSet::new();
            match known.classify("C20", "which-cid-store-error-is-reported", &taint, "processes with different hash seeds report different CID store verification errors (code 8) for the same corrupted data") {
                Some(k) => agg.known.push((k, "C20:which-cid-store-error-is-reported".into(), 0)),
                None => {
                    let path = format!("{vd}/replays/C20-{seed}-cid-store-error.json");
                    std::fs::write(&path, serde_json::json!({"prop":"C20","seed":seed,"kind":"which CID store verification error is reported depends on the hash seed","histories":cid_err_only}).to_string()).unwrap();
                    c20_addr_violation = Some(path);
                }
            }
        }
        if addr_only > 0 {
            let taint = BTreeSet::new();
            match known.classify("C20", "message-contains-memory-addresses", &taint, "ArchiveError ptr: 0x (processes differ only in printed addresses)") {
                Some(k) => agg.known.push((k, "C20:message-contains-memory-addresses".into(), 0)),
                None => {
                    let path = format!("{vd}/replays/C20-{seed}-addresses.json");
                    std::fs::write(&path, serde_json::json!({"prop":"C20","seed":seed,"kind":"error message contains memory addresses; differs between processes","histories":addr_only}).to_string()).unwrap();
                    c20_addr_violation = Some(path);
                }
            }
        }
    }
    // violations: minimise, replay in a fresh process, then report
    let mut reported = 0;
    let mut lines: Vec<String> = vec![];
    std::fs::create_dir_all(format!("{vd}/replays")).unwrap();
    let mut seen_tags = BTreeSet::new();
    let viols = std::mem::take(&mut agg.viol);
    let nviol = viols.len();
    for rf in viols.into_iter() {
        if !seen_tags.insert(rf.tag.clone()) || reported >= 3 {
            continue;
        }
        let raw = format!("{vd}/replays/{}-{}-{}.raw.json", rf.prop, rf.seed, rf.hist);
        let min = format!("{vd}/replays/{}-{}-{}.json", rf.prop, rf.seed, rf.hist);
        std::fs::write(&raw, serde_json::to_string(&rf).unwrap()).unwrap();
        let shim = format!("{vd}/shim/libverifrand.so");
        let st = std::process::Command::new(&exe).args(["minimise", &raw, &min]).stderr(std::process::Stdio::null()).stdout(std::process::Stdio::null()).env("LD_PRELOAD", &shim).env("VERIF_HASH_SEED", rf.hash_seed.to_string()).status();
        let path = if matches!(st, Ok(s) if s.success()) { min.clone() } else { raw.clone() };
        let mut path = path;
        let mut rp = std::process::Command::new(&exe).args(["replay", &path]).env("LD_PRELOAD", &shim).env("VERIF_HASH_SEED", rf.hash_seed.to_string()).output().expect("replay");
        if rp.status.code() != Some(1) && path != raw {
            // the minimised history lost the violation (a probabilistic one, e.g. C20's re-execution differences):
            // fall back to the unminimised recording
            path = raw.clone();
            rp = std::process::Command::new(&exe).args(["replay", &path]).env("LD_PRELOAD", &shim).env("VERIF_HASH_SEED", rf.hash_seed.to_string()).output().expect("replay");
        }
        if rp.status.code() == Some(1) {
            lines.push(format!("VIOLATION property={} replay={}", rf.prop, path));
            println!("--- violation {}:{} (seed {} history {})\n{}", rf.prop, rf.tag, rf.seed, rf.hist, rf.detail.chars().take(3000).collect::<String>());
            reported += 1;
        } else {
            eprintln!("HARNESS-ERROR: violation {}:{} (seed {} hist {}) did not reproduce from its replay file {path}", rf.prop, rf.tag, rf.seed, rf.hist);
            harness_error = true;
        }
    }
    // worker deaths are C01 violations (identified by history); other properties treat them as harness errors
    for (h, what) in &deaths {
        if prop == "C01" {
            let tag = format!("worker-death");
            let taint = BTreeSet::new();
            if let Some(k) = known.classify("C01", &tag, &taint, what) {
                println!("KNOWN-FINDING: property=C01 {k}");
            } else {
                let path = format!("{vd}/replays/C01-{seed}-{h}.death.json");
                std::fs::write(&path, serde_json::json!({"prop":"C01","seed":seed,"hist":h,"death":what, "rerun": format!("sim hist C01 {seed} {h}")}).to_string()).unwrap();
                lines.push(format!("VIOLATION property=C01 replay={path}"));
            }
        } else {
            // termination and memory are C01's business (there a death is a violation); for the other properties the
            // history is skipped, counted and named, and the rest of the worker's slice is re-run
            println!("note: history {h} killed its worker ({what}); skipped for {prop} - run `./check C01` for crash/resource findings");
        }
    }
    if let Some(path) = &c20_addr_violation {
        lines.push(format!("VIOLATION property=C20 replay={path}"));
    }
    c20_mismatch.sort();
    if c20_mismatch.len() > 5 {
        println!("note: {} histories differ between hash seeds; the first 5 are reported", c20_mismatch.len());
    }
    for h in c20_mismatch.iter().take(5) {
        let path = format!("{vd}/replays/C20-{seed}-{h}.json");
        std::fs::write(&path, serde_json::json!({"prop":"C20","seed":seed,"hist":h,"kind":"digest mismatch between hash seeds","rerun": format!("sim digest C20 {seed} {h} under two VERIF_HASH_SEED values")}).to_string()).unwrap();
        lines.push(format!("VIOLATION property=C20 replay={path}"));
    }
    // known findings
    let mut known_seen: BTreeMap<String, u64> = BTreeMap::new();
    for (k, _tag, _h) in &agg.known {
        *known_seen.entry(k.clone()).or_default() += 1;
    }
    for (k, n) in &known_seen {
        println!("KNOWN-FINDING: property={prop} {k} (hit in {n} sampled histories)");
    }
    // every listed finding of this property with a committed replay is replayed too; it is reported only while it
    // still fails (a finding that stops reproducing and is not sampled either produces no line)
    for f in &known.findings {
        if f.property != prop || f.status != "known" {
            continue;
        }
        let Some(rp) = &f.replay else { continue };
        let path = format!("{vd}/{rp}");
        if !std::path::Path::new(&path).exists() {
            continue;
        }
        let shim = format!("{vd}/shim/libverifrand.so");
        let out = std::process::Command::new(&exe).args(["replay", &path]).env("LD_PRELOAD", &shim).env("VERIF_REPLAY_KNOWN", "1").output();
        let still_fails = matches!(&out, Ok(o) if o.status.code() == Some(1));
        let sampled = known_seen.keys().any(|k| k.starts_with(&format!("{} ", f.id)));
        if still_fails && !sampled {
            println!("KNOWN-FINDING: property={prop} {} {} (committed replay {rp} still fails)", f.id, f.what);
            known_seen.insert(format!("{} (committed replay)", f.id), 1);
        } else if !still_fails {
            println!("note: committed replay {rp} of finding {} no longer fails", f.id);
        }
    }
    if let Ok(p) = std::env::var("VERIF_DIGESTS_OUT") {
        // determinism proof: per-history digests of the full event log (normalised flavour), sorted by history
        let mut s = String::new();
        for (h, d) in &agg.digests {
            s.push_str(&format!("{h} {}\n", d.split(':').nth(2).unwrap_or(d)));
        }
        std::fs::write(p, s).unwrap();
    }
    let wall_s = t0.elapsed().as_secs_f64();
    let ev = serde_json::json!({
        "property_id": prop,
        "tier": tier,
        "seed": seed,
        "level": level_of(prop),
        "wall_s": wall_s,
        "violations": lines.len(),
        "assumptions": [
            "the host model (store, forward to next peers, serve requests, feed results) is faithful to air/README.md and avm/server/src/avm.rs",
            "services are deterministic functions of (function name, arguments) within a history",
            "sampled, not enumerated: a clean batch is evidence over the sampled schedules only",
        ],
        "coverage": {
            "evaluations": agg.hists,
            "distinct_nontrivial": nontrivial.len(),
            "rule": rule_of(prop),
            "samples": agg.samples.iter().take(3).collect::<Vec<_>>(),
            "interpreter_invocations": agg.runs,
            "shadow_invocations": agg.shadow_runs,
            "events": agg.events,
            "histories_per_hour": (agg.hists as f64 / wall_s * 3600.0) as u64,
            "seeds": format!("VERIF_SEED={seed}, history indices 0..{}", total),
            "simulated_time_units_host_stub": agg.sim_time,
            "fault_kinds_configured_histories": agg.faults_cfg,
            "fault_kinds_fired": agg.faults_fired,
            "probe_hits": agg.probes,
            "result_codes": agg.codes,
            "scheduler_mix": agg.sched,
            "profile_mix": agg.profiles,
            "distinct_scripts": scripts.len(),
            "distinct_interleavings": inter.len(),
            "distinct_states": states.len(),
            "histories_hitting_step_cap": agg.capped,
            "generator_invalid_histories": agg.gen_invalid,
            "counters": agg.counters,
            "known_findings_hit": known_seen,
            "worker_deaths": deaths.len(),
            "workers": workers,
            "components": {
                "real": ["aquavm-air (check_signatures+gen_signatures) via air::execute_air", "air-parser", "air-trace-handler", "air-interpreter-data (rkyv+msgpack)", "air-interpreter-cid", "air-interpreter-signatures", "air-interpreter-value", "air-lambda", "polyplets", "air-interpreter-sede"],
                "stub": ["host loop (model of avm/server AVM::call + README protocol)", "data store (in-memory, durable/volatile split)", "network (simulated transport)", "services (deterministic table)"],
                "not_covered": ["Wasm/Marine boundary", "avm/client (JS)", "Nox"]
            }
        }
    });
    std::fs::write(format!("{vd}/evidence/{prop}.json"), serde_json::to_string_pretty(&ev).unwrap()).unwrap();
    println!(
        "{prop} {tier}: {} histories, {} interpreter runs (+{} shadow), {} distinct non-trivial, {} violations found ({} reported), {} known-finding hits, {} generator-invalid, {:.1}s",
        agg.hists, agg.runs, agg.shadow_runs, nontrivial.len(), nviol, lines.len(), agg.known.len(), agg.gen_invalid, wall_s
    );
    for e in agg.gen_invalid_examples.iter().take(2) {
        eprintln!("note: generator-invalid script example: {e}");
    }
    let _ = std::fs::remove_dir_all(&tmp);
    if harness_error {
        return 2;
    }
    // a confirmed violation is reported even when every history stopped at it before doing anything non-trivial
    if !lines.is_empty() {
        for l in &lines {
            println!("{l}");
        }
        return 1;
    }
    if agg.hists == 0 || nontrivial.len() < 2 {
        eprintln!("HARNESS-ERROR: nothing explored (histories {}, non-trivial {})", agg.hists, nontrivial.len());
        return 2;
    }
    0
}

fn merge(agg: &mut WorkerOut, o: WorkerOut, nontrivial: &mut BTreeSet<u64>, scripts: &mut BTreeSet<u64>, inter: &mut BTreeSet<u64>, states: &mut BTreeSet<u64>) {
    agg.hists += o.hists;
    agg.runs += o.runs;
    agg.shadow_runs += o.shadow_runs;
    agg.events += o.events;
    agg.sim_time += o.sim_time;
    agg.gen_invalid += o.gen_invalid;
    agg.capped += o.capped;
    agg.skipped += o.skipped;
    for (a, b) in [
        (&mut agg.codes, o.codes),
        (&mut agg.faults_cfg, o.faults_cfg),
        (&mut agg.faults_fired, o.faults_fired),
        (&mut agg.probes, o.probes),
        (&mut agg.counters, o.counters),
        (&mut agg.sched, o.sched),
        (&mut agg.profiles, o.profiles),
    ] {
        for (k, v) in b {
            *a.entry(k).or_default() += v;
        }
    }
    agg.viol.extend(o.viol);
    agg.known.extend(o.known);
    agg.samples.extend(o.samples);
    agg.digests.extend(o.digests);
    agg.gen_invalid_examples.extend(o.gen_invalid_examples);
    nontrivial.extend(o.nontrivial);
    scripts.extend(o.scripts);
    inter.extend(o.interleavings);
    states.extend(o.states);
}

fn cmd_hist(prop: &str, seed: u64, hist: u64) -> i32 {
    interp::install_panic_hook();
    let keys = make_keys();
    let known = Rc::new(known::Known::load(&format!("{}/known_findings.json", verif_dir())));
    let h = run_history(prop, seed, hist, &keys, &known);
    println!("script: {}", h.sc.script);
    println!("profile {} sched {} faults {:?} feed {}", h.sc.profile, h.sc.sched, h.sc.fault_cfg, h.sc.host_feed);
    for (eid, e) in &h.events {
        println!("  ev {eid}: {}", serde_json::to_string(e).unwrap());
    }
    println!("codes {:?} probes {:?} fired {:?}", h.stats.codes, h.stats.probes, h.stats.faults_fired);
    println!("digest {}", h.digest);
    for v in &h.viol {
        println!("VIOL {}:{} eid {}\n{}", v.prop, v.tag, v.eid, v.detail);
    }
    for v in &h.known_hits {
        println!("KNOWN {}:{} {:?}", v.prop, v.tag, v.known);
    }
    if let Some(g) = &h.gen_invalid {
        println!("GEN-INVALID {g}");
    }
    0
}

fn cmd_digests(prop: &str, seed: u64, n: u64) -> i32 {
    interp::install_panic_hook();
    let keys = make_keys();
    let known = Rc::new(known::Known::load(&format!("{}/known_findings.json", verif_dir())));
    for i in 0..n {
        let h = run_history(prop, seed, i, &keys, &known);
        println!("{i} {} {}", h.digest, h.events.len());
    }
    0
}

fn main() {
    let args: Vec<String> = std::env::args().collect();
    if args.len() < 2 {
        eprintln!("usage: sim run PROP quick|thorough | worker .. | replay FILE | minimise IN OUT | hist PROP SEED I | digests PROP SEED N");
        std::process::exit(2);
    }
    let seed: u64 = std::env::var("VERIF_SEED").ok().and_then(|s| s.parse().ok()).unwrap_or(0);
    let workers: u64 = std::env::var("VERIF_WORKERS").ok().and_then(|s| s.parse().ok()).unwrap_or(16);
    let code = match args[1].as_str() {
        "worker" => {
            worker(&args[2..]);
            0
        }
        "run" => cmd_run(&args[2], &args[3], seed, workers, std::env::var("VERIF_HISTS").ok().and_then(|s| s.parse().ok())),
        "replay" => {
            std::env::set_var("VERIF_REPLAYING", "1");
            cmd_replay(&args[2])
        }
        "minimise" => {
            std::env::set_var("VERIF_REPLAYING", "1");
            cmd_minimise(&args[2], &args[3])
        }
        "hist" => cmd_hist(&args[2], args[3].parse().unwrap(), args[4].parse().unwrap()),
        "digests" => cmd_digests(&args[2], args[3].parse().unwrap(), args[4].parse().unwrap()),
        "genstats" => genstats::run(&args[2], args[3].parse().unwrap(), args[4].parse().unwrap()),
        _ => 2,
    };
    std::process::exit(code);
}

// ------------------------------------------------------------------ one fresh thread per history
/// HashMap keys of a history are a pure function of (VERIF_SEED, history index, VERIF_HASH_SALT):
/// the shim reads VERIF_HASH_SEED when the fresh thread creates its first map.
pub fn hist_hash_seed(seed: u64, hist: u64) -> u64 {
    let salt: u64 = std::env::var("VERIF_HASH_SALT").ok().and_then(|s| s.parse().ok()).unwrap_or(0);
    mix3(seed, hist, 0x4A5 ^ salt.wrapping_mul(0x9e3779b97f4a7c15)) >> 1
}
fn in_thread<T: Send + 'static>(hash_seed: u64, f: impl FnOnce() -> T + Send + 'static) -> T {
    std::env::set_var("VERIF_HASH_SEED", hash_seed.to_string());
    let mb: usize = std::env::var("VERIF_STACK_MB").ok().and_then(|s| s.parse().ok()).unwrap_or(64);
    let h = std::thread::Builder::new().stack_size(mb << 20).spawn(f).expect("spawn history thread");
    match h.join() {
        Ok(v) => v,
        Err(_) => {
            eprintln!("HARNESS-ERROR: the simulator itself panicked (see message above)");
            std::process::exit(2);
        }
    }
}
pub fn run_history(prop: &str, seed: u64, hist: u64, _keys: &Rc<Vec<interp::Keys>>, _known: &Rc<known::Known>) -> HistOut {
    let p = prop.to_string();
    in_thread(hist_hash_seed(seed, hist), move || {
        let keys = make_keys();
        let known = Rc::new(known::Known::load(&format!("{}/known_findings.json", verif_dir())));
        run_history_inner(&p, seed, hist, &keys, &known)
    })
}
pub fn replay_history(rf: &ReplayFile, _keys: &Rc<Vec<interp::Keys>>, _known: &Rc<known::Known>) -> HistOut {
    let rf2 = rf.clone();
    in_thread(rf.hash_seed, move || {
        let keys = make_keys();
        let known = Rc::new(known::Known::load(&format!("{}/known_findings.json", verif_dir())));
        replay_history_inner(&rf2, &keys, &known)
    })
}
