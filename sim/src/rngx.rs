//! The only source of choices: one ChaCha8 stream per history, derived from VERIF_SEED.
use rand_chacha::rand_core::{RngCore, SeedableRng};

pub struct Rng {
    inner: rand_chacha::ChaCha8Rng,
    pub draws: u64,
}
pub fn splitmix(mut z: u64) -> u64 {
    z = z.wrapping_add(0x9e3779b97f4a7c15);
    z = (z ^ (z >> 30)).wrapping_mul(0xbf58476d1ce4e5b9);
    z = (z ^ (z >> 27)).wrapping_mul(0x94d049bb133111eb);
    z ^ (z >> 31)
}
pub fn mix3(a: u64, b: u64, c: u64) -> u64 {
    splitmix(splitmix(splitmix(a) ^ b) ^ c)
}
pub fn str_hash(s: &str) -> u64 {
    let mut h: u64 = 0xcbf29ce484222325;
    for b in s.bytes() {
        h ^= b as u64;
        h = h.wrapping_mul(0x100000001b3);
    }
    h
}
impl Rng {
    pub fn new(seed: u64) -> Rng {
        Rng { inner: rand_chacha::ChaCha8Rng::seed_from_u64(seed), draws: 0 }
    }
    pub fn u32(&mut self) -> u32 {
        self.draws += 1;
        self.inner.next_u32()
    }
    pub fn u64(&mut self) -> u64 {
        self.draws += 1;
        self.inner.next_u64()
    }
    pub fn below(&mut self, n: usize) -> usize {
        if n <= 1 {
            // still draw, so that shrinking sizes does not shift the stream
            let _ = self.u32();
            return 0;
        }
        (self.u32() as usize) % n
    }
    pub fn chance(&mut self, pct: u32) -> bool {
        self.u32() % 100 < pct
    }
    pub fn pick<'a, T>(&mut self, v: &'a [T]) -> &'a T {
        &v[self.below(v.len())]
    }
    pub fn fork(&mut self) -> Rng {
        Rng::new(self.u64())
    }
    pub fn shuffle<T>(&mut self, v: &mut [T]) {
        for i in (1..v.len()).rev() {
            let j = self.below(i + 1);
            v.swap(i, j);
        }
    }
}
