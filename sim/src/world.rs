//! World state, explicit events, the host model (stub of avm/server + README protocol) and the
//! deterministic service table. `World::apply` is the single transition function used by both the
//! PRNG-driven scheduler (driver.rs) and scripted replay.

use crate::interp::{self, Keys, Limits, Outcome, Req, SvcRes};
use crate::script::{Flags, Node};
use crate::tamper::ForgeOp;
use serde::{Deserialize, Serialize};
use serde_json::{json, Value};
use std::collections::{BTreeMap, BTreeSet};
use std::rc::Rc;

pub type MsgId = (u32, u32); // (eid of the producing event, destination peer index)

#[derive(Clone, Debug, Serialize, Deserialize, PartialEq)]
pub enum SvcFault {
    Error(i32),   // ret_code != 0 with a message
    Garbage,      // ret_code == 0, result text is not JSON
    Oversize(u32), // result padded to this many bytes
}

#[derive(Clone, Debug, Serialize, Deserialize)]
pub struct Scenario {
    pub prop: String,
    pub seed: u64,
    pub hist: u64,
    pub np: usize,
    pub ast: Node,
    pub script: String,
    pub flags: Flags,
    pub svc_faults: BTreeMap<String, SvcFault>,
    pub limits: Vec<Limits>,
    pub particle_id: String,
    pub timestamp: u64,
    pub ttl: u32,
    pub profile: String,
    pub sched: String,
    pub fault_cfg: BTreeMap<String, u32>, // fault kind -> rate (per mille) as configured
    pub host_eager: bool,
    pub host_feed: String, // "one" | "all" | "subset" | "withmsg"
    #[serde(default)]
    pub byz: Option<usize>, // the Byzantine participant, if any
}

pub const EXTRA_PEERS: usize = 3; // observer, observer2, spare (used by shadow runs only)

#[derive(Clone, Debug, Serialize, Deserialize, PartialEq)]
pub enum Ev {
    /// Host step: optionally take a message from the network, optionally feed ready call results.
    /// `lose`: the host crashes between run and store (outcome discarded, results stay pending).
    Run { peer: usize, msg: Option<MsgId>, feed: Vec<u32>, lose: bool, bogus: Vec<(String, i32, String)> },
    /// durable: re-send the forwards of the peer's last run (driver enqueues them); volatile: pending requests lost.
    Crash { peer: usize, volatile: bool },
    /// The store loses its last k writes (lost durable writes); the peer continues.
    Rollback { peer: usize, k: usize },
    /// A new message derived from `src` by forge ops (Byzantine tamper by `by`, corruption, restamp, ...), addressed to `to`.
    Forge {
        src: MsgId,
        to: usize,
        by: Option<usize>,
        ops: Vec<ForgeOp>,
        #[serde(default)]
        payload: Option<String>,
    },
    /// The durable store of a peer is damaged in place (torn or short write, lost sector, bit rot); the peer
    /// carries on with what it reads back. `payload` records the resulting bytes (see Forge).
    Torn {
        peer: usize,
        op: ForgeOp,
        #[serde(default)]
        payload: Option<String>,
    },
    /// Informational (driver-level faults with no world transition): drop, partition, stall, ...
    Note { kind: String, detail: String },
}

#[derive(Clone)]
pub struct Msg {
    pub from: usize,
    pub to: usize,
    pub data: Rc<Vec<u8>>,
    pub script: Option<Rc<String>>, // substituted script (C01)
    pub particle: Option<String>,   // replay under another particle id (C14)
    pub src_run: Option<usize>,     // index into world.runs of the run that produced the data
    pub forged: bool,
    pub must_reject: Option<String>, // set by forge ops that alter something attributed to another peer
    pub taint: BTreeSet<String>,
    pub forged_from: Option<Rc<Vec<u8>>>, // the honest bytes this message was forged from
    pub forge_kinds: Vec<String>,
}

pub struct PeerSt {
    pub store: Rc<Vec<u8>>,
    pub store_run: Option<usize>,
    pub hist: Vec<(Rc<Vec<u8>>, Option<usize>)>,
    pub pending: BTreeMap<u32, (Req, SvcRes)>,
    pub consumed: BTreeMap<u32, (Req, SvcRes, usize)>, // fed under this id in run idx
    pub max_id: u32,
    pub issued: BTreeMap<String, (u32, usize)>, // instance key -> (id, run idx)
    pub runs: Vec<usize>,
    pub taint: BTreeSet<String>,
}

pub struct RunRec {
    pub eid: u32,
    pub peer: usize,
    pub prev: Rc<Vec<u8>>,
    pub cur: Rc<Vec<u8>>,
    pub results: BTreeMap<String, SvcRes>,
    pub out: Outcome,
    pub stored: bool,
    pub msg: Option<MsgId>,
    pub script: Rc<String>,
    pub particle: String,
    pub prev_run: Option<usize>,
    pub cur_run: Option<usize>,
    pub taint: BTreeSet<String>,
    pub cur_forged: bool,
    pub must_reject: Option<String>,
    pub fed: Vec<u32>,
    pub bogus: Vec<String>,
    pub forged_from: Option<Rc<Vec<u8>>>,
    pub forge_kinds: Vec<String>,
}

#[derive(Default, Clone, Debug, Serialize, Deserialize)]
pub struct Stats {
    pub runs: u64,
    pub shadow_runs: u64,
    pub events: u64,
    pub codes: BTreeMap<String, u64>,
    pub faults_fired: BTreeMap<String, u64>,
    pub probes: BTreeMap<String, u64>,
    pub sim_time: u64,
}

pub struct World {
    pub sc: Scenario,
    pub keys: Rc<Vec<Keys>>,
    pub ids: Vec<String>,
    pub peers: Vec<PeerSt>,
    pub msgs: BTreeMap<MsgId, Msg>,
    pub runs: Vec<RunRec>,
    pub events: Vec<(u32, Ev)>,
    pub stats: Stats,
    pub script: Rc<String>,
    pub skipped: u32,
    pub delivered: BTreeSet<MsgId>,
    pub shadow_probes: BTreeSet<String>, // probe names that fired in shadow runs (end-of-history oracles classify with them)
}

pub fn inst_key(r: &Req) -> String {
    format!("{}|{}", r.function, Value::Array(r.args.clone()))
}

fn short_digest(v: &Value) -> String {
    use sha2::{Digest, Sha256};
    let mut h = Sha256::new();
    h.update(v.to_string().as_bytes());
    let d = h.finalize();
    d[..4].iter().map(|b| format!("{b:02x}")).collect()
}

/// Deterministic service table: (function, args) -> result. Rule U makes every result unique.
pub fn serve(sc: &Scenario, ids: &[String], r: &Req) -> SvcRes {
    let f = r.function.as_str();
    let args = Value::Array(r.args.clone());
    // results embed their arguments (rule U); arguments that are themselves results would make values grow
    // geometrically through nested folds, so big argument lists are embedded by digest (still unique per instance)
    let big = args.to_string().len() > 600;
    let embed: Value = if big { json!({"h": short_digest(&args), "n": r.args.len()}) } else { args.clone() };
    let embed_vec: Vec<Value> = if big { vec![embed.clone()] } else { r.args.clone() };
    if let Some(fault) = sc.svc_faults.get(f) {
        match fault {
            SvcFault::Error(c) => return (*c, json!(format!("err {f} {}", short_digest(&args))).to_string()),
            SvcFault::Garbage => return (0, format!("<<not json {f}>>")),
            SvcFault::Oversize(n) => {
                return (0, json!({"f": f, "a": embed_vec, "pad": "x".repeat(*n as usize)}).to_string());
            }
        }
    }
    let num: usize = f.trim_start_matches(|c: char| c.is_alphabetic()).parse().unwrap_or(0);
    if f.starts_with("big") {
        return (0, Value::Array((0..num).map(|i| json!(format!("{f}-{i}"))).collect()).to_string());
    }
    if f.starts_with("oddfail") {
        return (1 + (num % 7) as i32, crate::script3::odd_value(num));
    }
    if f.starts_with("odd") {
        return (0, crate::script3::odd_value(num));
    }
    let v = if f.starts_with("fail") {
        return (1 + (num % 7) as i32, json!(format!("boom {f} {}", short_digest(&args))).to_string());
    } else if f.starts_with("rdec") {
        // terminating recursion over objects: {"n": k} -> {"n": k-1}; anything without "n" counts as n = 1
        let n = r.args.first().and_then(|a| a.get("n")).and_then(|n| n.as_i64()).unwrap_or(1);
        json!({"n": n - 1, "from": short_digest(&args), "f": f})
    } else if f.starts_with("seed") {
        json!(2)
    } else if f.starts_with("dec") {
        json!(r.args.first().and_then(|a| a.as_i64()).unwrap_or(1) - 1)
    } else if f.starts_with("peer") {
        json!(ids[(num * 7 + 3) % sc.np])
    } else if f.starts_with("arr") {
        let n = 1 + num % 3;
        let sfx = if r.args.is_empty() { String::new() } else { format!("-{}", short_digest(&args)) };
        Value::Array((0..n).map(|i| json!(format!("{f}-{i}{sfx}"))).collect())
    } else if f.starts_with("obj") {
        json!({"a": {"b": num}, "c": [10, 20], "f": f, "x": embed_vec})
    } else {
        json!({"f": f, "a": embed_vec})
    };
    (0, v.to_string())
}

pub fn all_keys(np: usize, seed: u64) -> Vec<Keys> {
    // keypairs depend only on the index, so they can be cached per worker
    let _ = seed;
    (0..np + EXTRA_PEERS).map(|i| interp::make_keys(&format!("verif-peer-{i}"))).collect()
}

impl World {
    pub fn new(sc: Scenario, keys: Rc<Vec<Keys>>) -> World {
        let ids: Vec<String> = keys.iter().map(|k| k.id.clone()).collect();
        let peers = (0..sc.np + EXTRA_PEERS)
            .map(|_| PeerSt {
                store: Rc::new(vec![]),
                store_run: None,
                hist: vec![],
                pending: BTreeMap::new(),
                consumed: BTreeMap::new(),
                max_id: 0,
                issued: BTreeMap::new(),
                runs: vec![],
                taint: BTreeSet::new(),
            })
            .collect();
        let script = Rc::new(sc.script.clone());
        World { sc, keys, ids, peers, msgs: BTreeMap::new(), runs: vec![], events: vec![], stats: Stats::default(), script, skipped: 0, delivered: BTreeSet::new(), shadow_probes: BTreeSet::new() }
    }
    pub fn obs(&self) -> usize {
        self.sc.np
    }
    pub fn limits_of(&self, peer: usize) -> Limits {
        self.sc.limits.get(peer).cloned().unwrap_or_default()
    }

    /// A run that never touches world state (monitors use it for re-delivery variants, observers, twins).
    pub fn shadow(&mut self, peer: usize, prev: &[u8], cur: &[u8], results: &BTreeMap<String, SvcRes>) -> Outcome {
        self.shadow_ex(peer, prev, cur, results, None, None, None)
    }
    #[allow(clippy::too_many_arguments)]
    pub fn shadow_ex(
        &mut self,
        peer: usize,
        prev: &[u8],
        cur: &[u8],
        results: &BTreeMap<String, SvcRes>,
        limits: Option<&Limits>,
        script: Option<&str>,
        particle: Option<&str>,
    ) -> Outcome {
        self.stats.shadow_runs += 1;
        let lim = match limits {
            Some(l) => l.clone(),
            None => Limits::default(),
        };
        let script_rc = self.script.clone();
        let out = interp::run(&interp::RunArgs {
            air: script.unwrap_or(&script_rc),
            prev,
            cur,
            keys: &self.keys[peer],
            init_peer: &self.ids[0],
            particle_id: particle.unwrap_or(&self.sc.particle_id),
            timestamp: self.sc.timestamp,
            ttl: self.sc.ttl,
            limits: &lim,
            results,
            raw_results: None,
        });
        // leftover fold lore for values whose iteration was started is not finding F1
        // (nor is lore left over because the fold skipped values at or above its cursor)
        let lore_unexplained = out.probes.iter().any(|(n, _)| n == "fold_end_leftover_lore_unexplained" || n == "stream_fold_unvisited_values_unexplained");
        for (n, d) in &out.probes {
            // unvisited values with nothing added below the cursor are not finding F16
            if n == "stream_fold_unvisited_values" && d.ends_with("added_below_cursor=0") {
                continue;
            }
            if n == "fold_end_leftover_lore" && lore_unexplained {
                continue;
            }
            self.shadow_probes.insert(n.clone());
        }
        out
    }

    /// Apply one explicit event. Returns the index of the recorded run, if the event was a run.
    /// Events that are not enabled (unknown message, unknown result id) are skipped and counted.
    pub fn apply(&mut self, eid: u32, ev: &Ev) -> Option<usize> {
        self.stats.events += 1;
        if std::env::var("VERIF_TRACE").is_ok() {
            eprintln!("  ev {eid}: {}", serde_json::to_string(ev).unwrap());
        }
        self.events.push((eid, ev.clone()));
        match ev {
            Ev::Note { kind, .. } => {
                *self.stats.faults_fired.entry(kind.clone()).or_default() += 1;
                None
            }
            Ev::Crash { peer, volatile } => {
                let p = &mut self.peers[*peer];
                if *volatile {
                    if !p.pending.is_empty() {
                        *self.stats.faults_fired.entry("crash_volatile_lost_requests".into()).or_default() += 1;
                    }
                    p.pending.clear();
                    *self.stats.faults_fired.entry("crash_volatile".into()).or_default() += 1;
                } else {
                    *self.stats.faults_fired.entry("crash_durable".into()).or_default() += 1;
                }
                None
            }
            Ev::Rollback { peer, k } => {
                let p = &mut self.peers[*peer];
                if p.hist.len() > *k && *k > 0 {
                    let keep = p.hist.len() - *k;
                    p.hist.truncate(keep);
                    let (d, r) = p.hist.last().cloned().unwrap_or((Rc::new(vec![]), None));
                    p.store = d;
                    p.store_run = r;
                    p.taint.insert("rollback".into());
                    // requests issued by the lost runs are forgotten by the store but the host may still feed them
                    *self.stats.faults_fired.entry("rollback".into()).or_default() += 1;
                } else if *k > 0 && !p.hist.is_empty() {
                    p.hist.clear();
                    p.store = Rc::new(vec![]);
                    p.store_run = None;
                    p.taint.insert("rollback".into());
                    *self.stats.faults_fired.entry("rollback".into()).or_default() += 1;
                } else {
                    self.skipped += 1;
                }
                None
            }
            Ev::Torn { peer, op, payload } => {
                let cur = self.peers[*peer].store.clone();
                if cur.is_empty() {
                    self.skipped += 1;
                    return None;
                }
                let bytes = match payload {
                    Some(p) => crate::tamper::unhex(p),
                    None => crate::tamper::damage(&cur, op),
                };
                let Some(bytes) = bytes else {
                    self.skipped += 1;
                    return None;
                };
                if payload.is_none() {
                    if let Some((_, Ev::Torn { payload, .. })) = self.events.last_mut() {
                        *payload = Some(crate::tamper::hex(&bytes));
                    }
                }
                // a worker that dies later in this history died outside C01's domain: tell the parent
                if let Ok(j) = std::env::var("VERIF_JOURNAL") {
                    use std::io::Write;
                    if let Ok(mut f) = std::fs::OpenOptions::new().append(true).open(&j) {
                        let _ = writeln!(f, "torn");
                    }
                }
                let p = &mut self.peers[*peer];
                p.store = Rc::new(bytes);
                let sr = p.store_run;
                p.hist.push((p.store.clone(), sr));
                p.taint.insert("forged".into());
                p.taint.insert("torn".into());
                *self.stats.faults_fired.entry(format!("torn_store:{}", op.kind())).or_default() += 1;
                None
            }
            Ev::Forge { src, to, by, ops, payload } => {
                let Some(m) = self.msgs.get(src).cloned() else {
                    self.skipped += 1;
                    return None;
                };
                let mut forged = crate::tamper::forge(self, &m, *by, ops);
                // byte-level corruption acts on the encoded bytes, whose internal map order is not part of the
                // history: the resulting payload is recorded verbatim so that a replay delivers exactly these bytes
                let byte_level = ops.iter().any(|o| matches!(o.kind(), "flipbit" | "truncate" | "extend" | "zerowindow" | "splice"));
                if let (Some(p), Some(nm)) = (payload, forged.as_mut()) {
                    if let Some(bytes) = crate::tamper::unhex(p) {
                        nm.data = Rc::new(bytes);
                    }
                } else if let (true, Some(nm)) = (byte_level, forged.as_ref()) {
                    if let Some((_, Ev::Forge { payload, .. })) = self.events.last_mut() {
                        *payload = Some(crate::tamper::hex(&nm.data));
                    }
                }
                match forged {
                    Some(mut nm) => {
                        nm.to = *to;
                        nm.taint.insert("forged".into());
                        for op in ops {
                            *self.stats.faults_fired.entry(format!("forge:{}", op.kind())).or_default() += 1;
                        }
                        self.msgs.insert((eid, *to as u32), nm);
                    }
                    None => self.skipped += 1,
                }
                None
            }
            Ev::Run { peer, msg, feed, lose, bogus } => {
                let peer = *peer;
                if let Some(id) = msg {
                    if self.msgs.get(id).map(|m| m.to == peer).unwrap_or(false) && !*lose {
                        self.delivered.insert(*id);
                    }
                }
                let (cur, cur_run, script, particle, cur_forged, must_reject, mut taint) = match msg {
                    Some(id) => match self.msgs.get(id) {
                        Some(m) => (
                            m.data.clone(),
                            m.src_run,
                            m.script.clone().unwrap_or_else(|| self.script.clone()),
                            m.particle.clone().unwrap_or_else(|| self.sc.particle_id.clone()),
                            m.forged,
                            m.must_reject.clone(),
                            m.taint.clone(),
                        ),
                        None => {
                            self.skipped += 1;
                            return None;
                        }
                    },
                    None => (Rc::new(vec![]), None, self.script.clone(), self.sc.particle_id.clone(), false, None, BTreeSet::new()),
                };
                let (forged_from, forge_kinds) = match msg.and_then(|id| self.msgs.get(&id)) {
                    Some(m) => (m.forged_from.clone(), m.forge_kinds.clone()),
                    None => (None, vec![]),
                };
                let mut results: BTreeMap<String, SvcRes> = BTreeMap::new();
                let mut fed = vec![];
                for id in feed {
                    if let Some((_, res)) = self.peers[peer].pending.get(id) {
                        results.insert(id.to_string(), res.clone());
                        fed.push(*id);
                    } else {
                        self.skipped += 1;
                    }
                }
                let mut bogus_ids = vec![];
                // malformed call results (C01): the bytes are passed to the interpreter verbatim
                let raw_results: Option<Vec<u8>> = bogus.iter().find(|b| b.0 == "__RAW__").and_then(|b| crate::tamper::unhex(&b.2));
                if raw_results.is_some() {
                    bogus_ids.push("__RAW__".to_string());
                    *self.stats.faults_fired.entry("malformed_call_results".into()).or_default() += 1;
                }
                for (k, c, r) in bogus {
                    if k == "__RAW__" {
                        continue;
                    }
                    if !results.contains_key(k) {
                        results.insert(k.clone(), (*c, r.clone()));
                        bogus_ids.push(k.clone());
                        *self.stats.faults_fired.entry("bogus_result_id".into()).or_default() += 1;
                    }
                }
                if msg.is_none() && results.is_empty() && !self.runs.is_empty() && bogus.is_empty() {
                    // nothing to do (a feed whose ids all vanished during minimisation)
                    self.skipped += 1;
                    return None;
                }
                let prev = self.peers[peer].store.clone();
                let prev_run = self.peers[peer].store_run;
                taint.extend(self.peers[peer].taint.iter().cloned());
                let lim = self.limits_of(peer);
                let out = interp::run(&interp::RunArgs {
                    air: &script,
                    prev: &prev,
                    cur: &cur,
                    keys: &self.keys[peer],
                    init_peer: &self.ids[0],
                    particle_id: &particle,
                    timestamp: self.sc.timestamp,
                    ttl: self.sc.ttl,
                    limits: &lim,
                    results: &results,
                    raw_results: raw_results.as_deref(),
                });
                self.stats.runs += 1;
                if std::env::var("VERIF_TRACE").map(|v| v == "2").unwrap_or(false) {
                    eprintln!("    -> code {} {} next {:?} reqs {:?}\n    data {}", out.code, out.msg, out.next, out.reqs.keys().collect::<Vec<_>>(), interp::data_json(&interp::dec(&out.data)));
                }
                *self.stats.codes.entry(out.code.to_string()).or_default() += 1;
                for (n, d) in &out.probes {
                    *self.stats.probes.entry(n.clone()).or_default() += 1;
                    if n == "stream_fold_unvisited_values" && !d.ends_with("added_below_cursor=0") {
                        taint.insert("F16".into());
                    }
                    if n == "fold_end_leftover_lore" && !out.probes.iter().any(|(m, _)| m == "fold_end_leftover_lore_unexplained" || m == "stream_fold_unvisited_values_unexplained") {
                        taint.insert("F1".into());
                    }
                    if n == "fold_window_unread_states" {
                        taint.insert("F22".into());
                    }
                    if n == "remote_call_unresolved_args" {
                        taint.insert("F2probe".into()); // informational; C19 classifies per stuck state by sender
                    }
                }
                let idx = self.runs.len();
                let stored = !*lose && out.panic.is_none();
                if *lose {
                    *self.stats.faults_fired.entry("crash_between_run_and_store".into()).or_default() += 1;
                }
                if stored {
                    // host: store the returned data regardless of ret_code (README)
                    let d = Rc::new(out.data.clone());
                    let p = &mut self.peers[peer];
                    p.store = d.clone();
                    p.store_run = Some(idx);
                    p.hist.push((d.clone(), Some(idx)));
                    p.taint = taint.clone();
                    for id in &fed {
                        if let Some((rq, rs)) = p.pending.remove(id) {
                            p.consumed.insert(*id, (rq, rs, idx));
                        }
                    }
                    // serve new call requests through the deterministic table
                    let reqs: Vec<(u32, Req)> = out.reqs.iter().map(|(k, v)| (*k, v.clone())).collect();
                    for (id, rq) in reqs {
                        let res = serve(&self.sc, &self.ids, &rq);
                        let p = &mut self.peers[peer];
                        p.pending.insert(id, (rq, res));
                    }
                    // forwards
                    let np_all = self.ids.len();
                    for n in &out.next {
                        if let Some(to) = self.ids.iter().position(|x| x == n) {
                            if to < np_all {
                                self.msgs.insert(
                                    (eid, to as u32),
                                    Msg {
                                        from: peer,
                                        to,
                                        data: d.clone(),
                                        script: None,
                                        particle: None,
                                        src_run: Some(idx),
                                        forged: false,
                                        must_reject: None,
                                        taint: taint.clone(),
                                        forged_from: None,
                                        forge_kinds: vec![],
                                    },
                                );
                            }
                        }
                    }
                }
                self.peers[peer].runs.push(idx);
                self.runs.push(RunRec {
                    eid,
                    peer,
                    prev,
                    cur,
                    results,
                    out,
                    stored,
                    msg: *msg,
                    script,
                    particle,
                    prev_run,
                    cur_run,
                    taint,
                    cur_forged,
                    must_reject,
                    fed,
                    bogus: bogus_ids,
                    forged_from,
                    forge_kinds,
                });
                Some(idx)
            }
        }
    }
}

impl World {
    /// every honest message has been delivered to its addressee and no call result is outstanding
    pub fn quiescent(&self) -> bool {
        self.msgs.iter().all(|(id, m)| m.forged || self.delivered.contains(id)) && self.peers.iter().all(|p| p.pending.is_empty())
    }
}
