//! Known findings (read-only at run time): a violation is attributed to a listed finding only if
//! the finding's classifier (probe taint or panic location) is present AND the oracle tag is listed.
use serde::{Deserialize, Serialize};
use std::collections::BTreeSet;

#[derive(Clone, Debug, Serialize, Deserialize, Default)]
pub struct Finding {
    pub id: String,
    pub property: String,
    #[serde(default)]
    pub status: String, // "known"
    #[serde(default)]
    pub taint: Option<String>, // probe-derived taint that must be present
    #[serde(default)]
    pub tags: Vec<String>, // oracle tags (prefix match)
    #[serde(default)]
    pub panic_at: Option<String>, // C01: file:line suffix
    #[serde(default)]
    pub detail_contains: Option<String>,
    pub what: String,
    #[serde(default)]
    pub replay: Option<String>,
}
#[derive(Clone, Debug, Serialize, Deserialize, Default)]
pub struct Known {
    #[serde(default)]
    pub findings: Vec<Finding>,
    #[serde(default)]
    pub fixed: Vec<String>,
}
impl Known {
    pub fn load(path: &str) -> Known {
        match std::fs::read_to_string(path) {
            Ok(s) => serde_json::from_str(&s).unwrap_or_else(|e| {
                eprintln!("HARNESS-ERROR: known findings file {path} does not parse: {e}");
                std::process::exit(2);
            }),
            Err(_) => Known::default(),
        }
    }
    pub fn classify(&self, prop: &str, tag: &str, taint: &BTreeSet<String>, detail: &str) -> Option<String> {
        for f in &self.findings {
            if f.property != prop || f.status != "known" {
                continue;
            }
            if !f.tags.is_empty() && !f.tags.iter().any(|t| tag.starts_with(t.as_str())) {
                continue;
            }
            if let Some(t) = &f.taint {
                if !taint.contains(t) {
                    continue;
                }
            }
            if let Some(p) = &f.panic_at {
                if !tag.contains(p.as_str()) {
                    continue;
                }
            }
            if let Some(dc) = &f.detail_contains {
                if !detail.contains(dc.as_str()) {
                    continue;
                }
            }
            if f.taint.is_none() && f.panic_at.is_none() && f.detail_contains.is_none() {
                continue; // a finding must name a classifier
            }
            return Some(format!("{} {}", f.id, f.what));
        }
        None
    }
}
