//! Reference model R: a small sequential evaluator of the C16 fragment (calls, seq, par, xor,
//! match/mismatch, fail, null, never, scalar ap, lenses, new, scalar folds), written against
//! docs/AIR.md. It shares no code with /repo: values are serde_json::Value, lenses are plain JSON
//! navigation, scoping is a map with save/restore. It runs the script once on an omniscient peer
//! that executes every call immediately through the same deterministic service table.
//!
//! Streams are write-only for R (their content depends on the schedule); a canonical stream read into
//! the fragment (`(ap #c x)`, `#c` as an argument) is an *opaque* value: R knows where it comes from
//! (its tetraplet) but not what it is. Opaque values flow through ap, lenses and call arguments;
//! whenever control flow would depend on one, R declares the script unsupported.

use crate::interp::{Req, Tet};
use crate::script::{Arg, Lens, Node, Out, PeerRef};
use crate::world::{serve, Scenario};
use serde_json::Value;
use std::collections::BTreeMap;

#[derive(Clone, Debug)]
pub struct RCall {
    pub peer: String,
    pub fname: String,
    pub args: Vec<Option<Value>>,    // None = not compared (opaque values, error accessors, .length)
    pub tets: Vec<Option<Vec<Tet>>>, // None = not compared
}
#[derive(Clone, Debug, Default)]
pub struct RResult {
    pub calls: Vec<RCall>,
    pub supported: bool,
    pub why_unsupported: String,
}
#[derive(Clone, Debug)]
struct Val {
    v: Option<Value>, // None = opaque
    tet: Option<Tet>, // None = unknown origin
}
#[derive(Clone, Copy, Debug, PartialEq)]
enum Flow {
    Complete,
    Incomplete,
    Fail,
}
enum Res<T> {
    Ok(T),
    Wait,
    Fail,
}
struct FoldSt<'a> {
    it: String,
    elems: Vec<Val>,
    idx: usize,
    body: &'a Node,
    last: Option<&'a Node>,
}
struct Ev<'a> {
    sc: &'a Scenario,
    ids: &'a [String],
    vars: BTreeMap<String, Val>,
    canons: BTreeMap<String, String>, // canon name -> designated peer id
    folds: Vec<FoldSt<'a>>,
    out: RResult,
    steps: usize,
}

fn lit_tet(ids: &[String]) -> Tet {
    Tet { peer: ids[0].clone(), service: String::new(), function: String::new(), lens: String::new() }
}
fn lens_text(l: &[Lens]) -> String {
    crate::script::render_lens(l)
}

impl<'a> Ev<'a> {
    fn unsupported(&mut self, why: &str) {
        if self.out.supported {
            self.out.supported = false;
            self.out.why_unsupported = why.to_string();
        }
    }
    fn apply_lens(&mut self, base: &Val, lens: &[Lens]) -> Res<Val> {
        if lens.is_empty() {
            return Res::Ok(base.clone());
        }
        let tet = base.tet.clone().map(|mut t| {
            t.lens = format!("{}{}", t.lens, lens_text(lens));
            t
        });
        let Some(bv) = &base.v else {
            // opaque: assume the path exists (the generator picks lenses that fit the value's shape), except for the
            // deliberately failing field, which no value of the service table has whatever its arguments were
            if lens.iter().any(|l| matches!(l, Lens::Field(f) if f == "nosuch")) {
                return Res::Fail;
            }
            if lens.iter().any(|l| matches!(l, Lens::VarIdx(_))) {
                self.unsupported("variable index into an opaque value");
            }
            return Res::Ok(Val { v: None, tet });
        };
        let mut cur = bv.clone();
        for l in lens {
            let next = match l {
                Lens::Field(f) => cur.get(f.as_str()).cloned(),
                Lens::Idx(i) => cur.as_array().and_then(|a| a.get(*i as usize)).cloned(),
                Lens::VarIdx(name) => match self.vars.get(name) {
                    None => return Res::Wait,
                    Some(ix) => match &ix.v {
                        Some(Value::Number(n)) => n.as_u64().and_then(|i| cur.as_array().and_then(|a| a.get(i as usize)).cloned()),
                        Some(Value::String(s)) => cur.get(s.as_str()).cloned(),
                        None => {
                            self.unsupported("opaque index");
                            return Res::Wait;
                        }
                        _ => None,
                    },
                },
            };
            match next {
                Some(n) => cur = n,
                None => return Res::Fail,
            }
        }
        Res::Ok(Val { v: Some(cur), tet })
    }
    fn lookup(&mut self, name: &str, lens: &[Lens]) -> Res<Val> {
        match self.vars.get(name).cloned() {
            None => Res::Wait,
            Some(b) => self.apply_lens(&b, lens),
        }
    }
    /// (value, tetraplets); None = not compared
    fn arg(&mut self, a: &Arg) -> Res<(Option<Value>, Option<Vec<Tet>>)> {
        let lit = |v: Value, ids: &[String]| Res::Ok((Some(v), Some(vec![lit_tet(ids)])));
        match a {
            Arg::Str(s) => lit(Value::String(s.clone()), self.ids),
            Arg::Num(n) => lit(serde_json::json!(n), self.ids),
            Arg::Bool(b) => lit(Value::Bool(*b), self.ids),
            Arg::EmptyArr => lit(serde_json::json!([]), self.ids),
            Arg::InitPeer => lit(Value::String(self.ids[0].clone()), self.ids),
            Arg::Timestamp => lit(serde_json::json!(self.sc.timestamp), self.ids),
            Arg::Ttl => lit(serde_json::json!(self.sc.ttl), self.ids),
            Arg::Var { name, lens } => match self.lookup(name, lens) {
                Res::Ok(v) => Res::Ok((v.v, v.tet.map(|t| vec![t]))),
                Res::Wait => Res::Wait,
                Res::Fail => Res::Fail,
            },
            Arg::ErrCode | Arg::ErrMsg | Arg::LastErrCode | Arg::LastErrMsg | Arg::Length { .. } => Res::Ok((None, None)),
            Arg::Canon { name, .. } => {
                // a canonical stream as an argument: content and per-element origins depend on the schedule
                if self.canons.contains_key(name) {
                    Res::Ok((None, None))
                } else {
                    Res::Wait
                }
            }
        }
    }
    fn arg_val(&mut self, a: &Arg) -> Res<Val> {
        match a {
            Arg::Var { name, lens } => self.lookup(name, lens),
            Arg::Canon { name, lens } => match self.canons.get(name).cloned() {
                None => Res::Wait,
                Some(peer) => {
                    if lens.is_empty() {
                        // the whole canonical stream as a scalar: originates at the canon's peer
                        Res::Ok(Val { v: None, tet: Some(Tet { peer, service: String::new(), function: String::new(), lens: String::new() }) })
                    } else {
                        // an element keeps its own origin, which R does not know
                        Res::Ok(Val { v: None, tet: None })
                    }
                }
            },
            other => match self.arg(other) {
                Res::Ok((Some(v), Some(t))) => Res::Ok(Val { v: Some(v), tet: Some(t[0].clone()) }),
                Res::Ok(_) => Res::Ok(Val { v: None, tet: None }),
                Res::Wait => Res::Wait,
                Res::Fail => Res::Fail,
            },
        }
    }
    fn eval(&mut self, n: &'a Node) -> Flow {
        self.steps += 1;
        if self.steps > 20000 {
            self.unsupported("step budget");
            return Flow::Incomplete;
        }
        if !self.out.supported {
            return Flow::Incomplete;
        }
        match n {
            Node::Null => Flow::Complete,
            Node::Never => Flow::Incomplete,
            Node::Fail { .. } | Node::FailLastError | Node::FailError => Flow::Fail,
            Node::Seq(l, r) => match self.eval(l) {
                Flow::Complete => self.eval(r),
                f => f,
            },
            Node::Par(l, r) => {
                let a = self.eval(l);
                let b = self.eval(r);
                // par fails only if both branches failed; a failed branch counts as incomplete
                if a == Flow::Fail && b == Flow::Fail {
                    Flow::Fail
                } else if a == Flow::Complete || b == Flow::Complete {
                    Flow::Complete
                } else {
                    Flow::Incomplete
                }
            }
            Node::Xor(l, r) => match self.eval(l) {
                Flow::Fail => self.eval(r),
                f => f,
            },
            Node::Match { l, r, body } | Node::Mismatch { l, r, body } => {
                let is_match = matches!(n, Node::Match { .. });
                let a = match self.arg_val(l) {
                    Res::Ok(v) => v,
                    Res::Wait => return Flow::Incomplete,
                    Res::Fail => return Flow::Fail,
                };
                let b = match self.arg_val(r) {
                    Res::Ok(v) => v,
                    Res::Wait => return Flow::Incomplete,
                    Res::Fail => return Flow::Fail,
                };
                let (Some(av), Some(bv)) = (&a.v, &b.v) else {
                    // comparing a value with itself needs no knowledge of it
                    if l == r {
                        return if is_match { self.eval(body) } else { Flow::Fail };
                    }
                    self.unsupported("match on an opaque value");
                    return Flow::Incomplete;
                };
                if (av == bv) == is_match {
                    self.eval(body)
                } else {
                    Flow::Fail
                }
            }
            Node::Ap { src, dst } => {
                if dst.starts_with('$') || dst.starts_with('%') {
                    // stream append: resolve the source (it may wait or fail), the stream itself is write-only for R
                    return match self.arg_val(src) {
                        Res::Ok(_) => Flow::Complete,
                        Res::Wait => Flow::Incomplete,
                        Res::Fail => Flow::Fail,
                    };
                }
                match self.arg_val(src) {
                    Res::Ok(v) => {
                        self.vars.insert(dst.clone(), v);
                        Flow::Complete
                    }
                    Res::Wait => Flow::Incomplete,
                    Res::Fail => Flow::Fail,
                }
            }
            Node::New { var, body } => {
                if var.starts_with('$') || var.starts_with('%') {
                    return self.eval(body);
                }
                let saved = self.vars.remove(var);
                let f = self.eval(body);
                self.vars.remove(var);
                if let Some(s) = saved {
                    self.vars.insert(var.clone(), s);
                }
                f
            }
            Node::Canon { peer, dst, .. } => {
                let peer_id = match peer {
                    PeerRef::Lit(i) => self.ids[*i].clone(),
                    PeerRef::Init => self.ids[0].clone(),
                    PeerRef::Var { .. } => {
                        self.unsupported("canon with a variable peer");
                        return Flow::Incomplete;
                    }
                };
                if dst.starts_with('#') {
                    self.canons.insert(dst.clone(), peer_id);
                } else {
                    // canon of a map into a scalar
                    self.vars.insert(dst.clone(), Val { v: None, tet: None });
                }
                Flow::Complete
            }
            Node::Call { peer, service, fname, args, out } => {
                let peer_id = match peer {
                    PeerRef::Lit(i) => self.ids[*i].clone(),
                    PeerRef::Init => self.ids[0].clone(),
                    PeerRef::Var { name, lens } => match self.lookup(name, lens) {
                        Res::Ok(v) => match v.v {
                            Some(Value::String(s)) => s,
                            Some(_) => return Flow::Fail,
                            None => {
                                self.unsupported("opaque call target");
                                return Flow::Incomplete;
                            }
                        },
                        Res::Wait => return Flow::Incomplete,
                        Res::Fail => return Flow::Fail,
                    },
                };
                let mut vals = vec![];
                let mut tets = vec![];
                let mut wait = false;
                for a in args {
                    match self.arg(a) {
                        Res::Ok((v, t)) => {
                            vals.push(v);
                            tets.push(t);
                        }
                        Res::Wait => wait = true,
                        Res::Fail => return Flow::Fail,
                    }
                }
                if wait {
                    return Flow::Incomplete;
                }
                self.out.calls.push(RCall { peer: peer_id.clone(), fname: fname.clone(), args: vals.clone(), tets });
                let origin = Tet { peer: peer_id, service: service.clone(), function: fname.clone(), lens: String::new() };
                let failing = fname.starts_with("fail") || matches!(self.sc.svc_faults.get(fname), Some(crate::world::SvcFault::Error(_)) | Some(crate::world::SvcFault::Garbage));
                if failing {
                    return Flow::Fail;
                }
                let result: Option<Value> = if vals.iter().all(|v| v.is_some()) {
                    let rq = Req { service: service.clone(), function: fname.clone(), args: vals.into_iter().map(|v| v.unwrap()).collect(), tets: vec![], arg_hash: String::new() };
                    let (code, text) = serve(self.sc, self.ids, &rq);
                    if code != 0 {
                        return Flow::Fail;
                    }
                    match serde_json::from_str::<Value>(&text) {
                        Ok(v) => Some(v),
                        Err(_) => return Flow::Fail,
                    }
                } else if fname.starts_with("peer") {
                    // does not depend on the arguments
                    let rq = Req { service: service.clone(), function: fname.clone(), args: vec![], tets: vec![], arg_hash: String::new() };
                    serde_json::from_str::<Value>(&serve(self.sc, self.ids, &rq).1).ok()
                } else {
                    None // the result embeds an opaque argument
                };
                if let Out::Scalar(name) = out {
                    self.vars.insert(name.clone(), Val { v: result, tet: Some(origin) });
                }
                Flow::Complete
            }
            Node::Fold { iterable, it, body, last } => {
                let base = match iterable {
                    Arg::Var { name, lens } => {
                        if name.starts_with('$') || name.starts_with('%') {
                            self.unsupported("stream fold");
                            return Flow::Incomplete;
                        }
                        match self.lookup(name, lens) {
                            Res::Ok(v) => v,
                            Res::Wait => return Flow::Incomplete,
                            Res::Fail => return Flow::Fail,
                        }
                    }
                    _ => {
                        self.unsupported("fold over a canonical stream");
                        return Flow::Incomplete;
                    }
                };
                let Some(bv) = &base.v else {
                    self.unsupported("fold over an opaque value");
                    return Flow::Incomplete;
                };
                let Some(arr) = bv.as_array().cloned() else { return Flow::Fail };
                if arr.is_empty() {
                    return Flow::Complete;
                }
                let elems: Vec<Val> = arr
                    .into_iter()
                    .enumerate()
                    .map(|(i, v)| {
                        let t = base.tet.clone().map(|mut t| {
                            t.lens = format!("{}.$.[{i}]", t.lens);
                            t
                        });
                        Val { v: Some(v), tet: t }
                    })
                    .collect();
                let saved = self.vars.remove(it);
                self.vars.insert(it.clone(), elems[0].clone());
                self.folds.push(FoldSt { it: it.clone(), elems, idx: 0, body, last: last.as_deref() });
                let f = self.eval(body);
                self.folds.pop();
                self.vars.remove(it);
                if let Some(s) = saved {
                    self.vars.insert(it.clone(), s);
                }
                f
            }
            Node::Next(it) => {
                let Some(pos) = self.folds.iter().rposition(|f| f.it == *it) else {
                    self.unsupported("next without fold");
                    return Flow::Incomplete;
                };
                let (idx, len, body, last) = {
                    let f = &self.folds[pos];
                    (f.idx, f.elems.len(), f.body, f.last)
                };
                if idx + 1 < len {
                    self.folds[pos].idx = idx + 1;
                    let e = self.folds[pos].elems[idx + 1].clone();
                    let prev = self.vars.insert(it.clone(), e);
                    let f = self.eval(body);
                    self.folds[pos].idx = idx;
                    if let Some(p) = prev {
                        self.vars.insert(it.clone(), p);
                    }
                    f
                } else if let Some(l) = last {
                    self.eval(l)
                } else {
                    Flow::Complete
                }
            }
            Node::ApMap { .. } | Node::Raw(_) => {
                self.unsupported("outside the fragment");
                Flow::Complete
            }
        }
    }
}

pub fn evaluate(sc: &Scenario, ids: &[String]) -> RResult {
    let ast = sc.ast.clone();
    let mut ev = Ev {
        sc,
        ids,
        vars: BTreeMap::new(),
        canons: BTreeMap::new(),
        folds: vec![],
        out: RResult { calls: vec![], supported: true, why_unsupported: String::new() },
        steps: 0,
    };
    let _ = ev.eval(&ast);
    ev.out
}
