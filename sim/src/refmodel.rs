//! Reference model R: a small sequential evaluator of the C16 fragment (calls, seq, par, xor,
//! match/mismatch, fail, null, never, scalar ap, lenses, new, scalar folds), written against
//! docs/AIR.md. It shares no code with /repo: values are serde_json::Value, lenses are plain JSON
//! navigation, scoping is a map with save/restore. It runs the script once on an omniscient peer
//! that executes every call immediately through the same deterministic service table.

use crate::interp::{Req, Tet};
use crate::script::{Arg, Lens, Node, Out, PeerRef};
use crate::world::{serve, Scenario};
use serde_json::Value;
use std::collections::BTreeMap;

#[derive(Clone, Debug)]
pub struct RCall {
    pub peer: String,
    pub fname: String,
    pub args: Vec<Option<Value>>,       // None = not compared (error accessors, .length)
    pub tets: Vec<Option<Vec<Tet>>>,    // None = not compared
}
#[derive(Clone, Debug, Default)]
pub struct RResult {
    pub calls: Vec<RCall>,
    pub supported: bool,
    pub why_unsupported: String,
}
#[derive(Clone, Debug)]
struct Val {
    v: Value,
    tet: Tet,
}
#[derive(Clone, Copy, Debug, PartialEq)]
enum Flow {
    Complete,
    Incomplete,
    Fail,
}
enum Res<T> {
    Ok(T),
    Wait,
    Fail,
}
struct FoldSt<'a> {
    it: String,
    elems: Vec<Val>,
    idx: usize,
    body: &'a Node,
    last: Option<&'a Node>,
}
struct Ev<'a> {
    sc: &'a Scenario,
    ids: &'a [String],
    vars: BTreeMap<String, Val>,
    folds: Vec<FoldSt<'a>>,
    out: RResult,
    steps: usize,
}

fn lit_tet(ids: &[String]) -> Tet {
    Tet { peer: ids[0].clone(), service: String::new(), function: String::new(), lens: String::new() }
}
fn lens_text(l: &[Lens]) -> String {
    crate::script::render_lens(l)
}

impl<'a> Ev<'a> {
    fn apply_lens(&self, base: &Val, lens: &[Lens]) -> Res<Val> {
        if lens.is_empty() {
            return Res::Ok(base.clone());
        }
        let mut cur = base.v.clone();
        for l in lens {
            let next = match l {
                Lens::Field(f) => cur.get(f.as_str()).cloned(),
                Lens::Idx(i) => cur.as_array().and_then(|a| a.get(*i as usize)).cloned(),
                Lens::VarIdx(name) => match self.vars.get(name) {
                    None => return Res::Wait,
                    Some(ix) => match &ix.v {
                        Value::Number(n) => n.as_u64().and_then(|i| cur.as_array().and_then(|a| a.get(i as usize)).cloned()),
                        Value::String(s) => cur.get(s.as_str()).cloned(),
                        _ => None,
                    },
                },
            };
            match next {
                Some(n) => cur = n,
                None => return Res::Fail,
            }
        }
        let mut tet = base.tet.clone();
        tet.lens = format!("{}{}", tet.lens, lens_text(lens));
        Res::Ok(Val { v: cur, tet })
    }
    /// (value, tetraplets); None value = wildcard
    fn arg(&mut self, a: &Arg) -> Res<(Option<Value>, Option<Vec<Tet>>)> {
        let lit = |v: Value, ids: &[String]| Res::Ok((Some(v), Some(vec![lit_tet(ids)])));
        match a {
            Arg::Str(s) => lit(Value::String(s.clone()), self.ids),
            Arg::Num(n) => lit(serde_json::json!(n), self.ids),
            Arg::Bool(b) => lit(Value::Bool(*b), self.ids),
            Arg::EmptyArr => lit(serde_json::json!([]), self.ids),
            Arg::InitPeer => lit(Value::String(self.ids[0].clone()), self.ids),
            Arg::Timestamp => lit(serde_json::json!(self.sc.timestamp), self.ids),
            Arg::Ttl => lit(serde_json::json!(self.sc.ttl), self.ids),
            Arg::Var { name, lens } => match self.vars.get(name).cloned() {
                None => Res::Wait,
                Some(b) => match self.apply_lens(&b, lens) {
                    Res::Ok(v) => Res::Ok((Some(v.v), Some(vec![v.tet]))),
                    Res::Wait => Res::Wait,
                    Res::Fail => Res::Fail,
                },
            },
            Arg::ErrCode | Arg::ErrMsg | Arg::LastErrCode | Arg::LastErrMsg | Arg::Length { .. } => Res::Ok((None, None)),
            Arg::Canon { .. } => {
                self.out.supported = false;
                self.out.why_unsupported = "canon argument".into();
                Res::Ok((None, None))
            }
        }
    }
    fn arg_val(&mut self, a: &Arg) -> Res<Val> {
        match a {
            Arg::Var { name, lens } => match self.vars.get(name).cloned() {
                None => Res::Wait,
                Some(b) => self.apply_lens(&b, lens),
            },
            other => match self.arg(other) {
                Res::Ok((Some(v), Some(t))) => Res::Ok(Val { v, tet: t[0].clone() }),
                Res::Ok(_) => {
                    self.out.supported = false;
                    self.out.why_unsupported = "wildcard value used as data".into();
                    Res::Wait
                }
                Res::Wait => Res::Wait,
                Res::Fail => Res::Fail,
            },
        }
    }
    fn eval(&mut self, n: &'a Node) -> Flow {
        self.steps += 1;
        if self.steps > 20000 {
            self.out.supported = false;
            self.out.why_unsupported = "step budget".into();
            return Flow::Incomplete;
        }
        match n {
            Node::Null => Flow::Complete,
            Node::Never => Flow::Incomplete,
            Node::Fail { .. } | Node::FailLastError | Node::FailError => Flow::Fail,
            Node::Seq(l, r) => match self.eval(l) {
                Flow::Complete => self.eval(r),
                f => f,
            },
            Node::Par(l, r) => {
                let a = self.eval(l);
                let b = self.eval(r);
                // par fails only if both branches failed; a failed branch counts as incomplete
                if a == Flow::Fail && b == Flow::Fail {
                    Flow::Fail
                } else if a == Flow::Complete || b == Flow::Complete {
                    Flow::Complete
                } else {
                    Flow::Incomplete
                }
            }
            Node::Xor(l, r) => match self.eval(l) {
                Flow::Fail => self.eval(r),
                f => f,
            },
            Node::Match { l, r, body } | Node::Mismatch { l, r, body } => {
                let is_match = matches!(n, Node::Match { .. });
                let a = match self.arg_val(l) {
                    Res::Ok(v) => v,
                    Res::Wait => return Flow::Incomplete,
                    Res::Fail => return Flow::Fail,
                };
                let b = match self.arg_val(r) {
                    Res::Ok(v) => v,
                    Res::Wait => return Flow::Incomplete,
                    Res::Fail => return Flow::Fail,
                };
                if (a.v == b.v) == is_match {
                    self.eval(body)
                } else {
                    Flow::Fail
                }
            }
            Node::Ap { src, dst } => {
                if dst.starts_with('$') || dst.starts_with('%') {
                    self.out.supported = false;
                    self.out.why_unsupported = "stream ap".into();
                    return Flow::Complete;
                }
                match self.arg_val(src) {
                    Res::Ok(v) => {
                        self.vars.insert(dst.clone(), v);
                        Flow::Complete
                    }
                    Res::Wait => Flow::Incomplete,
                    Res::Fail => Flow::Fail,
                }
            }
            Node::New { var, body } => {
                let saved = self.vars.remove(var);
                let f = self.eval(body);
                self.vars.remove(var);
                if let Some(s) = saved {
                    self.vars.insert(var.clone(), s);
                }
                f
            }
            Node::Call { peer, service, fname, args, out } => {
                let peer_id = match peer {
                    PeerRef::Lit(i) => self.ids[*i].clone(),
                    PeerRef::Init => self.ids[0].clone(),
                    PeerRef::Var { name, lens } => match self.vars.get(name).cloned() {
                        None => return Flow::Incomplete,
                        Some(b) => match self.apply_lens(&b, lens) {
                            Res::Ok(v) => match v.v.as_str() {
                                Some(s) => s.to_string(),
                                None => return Flow::Fail,
                            },
                            Res::Wait => return Flow::Incomplete,
                            Res::Fail => return Flow::Fail,
                        },
                    },
                };
                let mut vals = vec![];
                let mut tets = vec![];
                let mut wait = false;
                for a in args {
                    match self.arg(a) {
                        Res::Ok((v, t)) => {
                            vals.push(v);
                            tets.push(t);
                        }
                        Res::Wait => wait = true,
                        Res::Fail => return Flow::Fail,
                    }
                }
                if wait {
                    return Flow::Incomplete;
                }
                self.out.calls.push(RCall { peer: peer_id.clone(), fname: fname.clone(), args: vals.clone(), tets });
                if vals.iter().any(|v| v.is_none()) {
                    // the result would depend on a wildcard argument: only possible for probe calls whose output is unused
                    if !matches!(out, Out::None) {
                        self.out.supported = false;
                        self.out.why_unsupported = "wildcard argument feeds a bound result".into();
                    }
                    return Flow::Complete;
                }
                let rq = Req { service: service.clone(), function: fname.clone(), args: vals.into_iter().map(|v| v.unwrap()).collect(), tets: vec![], arg_hash: String::new() };
                let (code, text) = serve(self.sc, self.ids, &rq);
                if code != 0 {
                    return Flow::Fail;
                }
                let Ok(v) = serde_json::from_str::<Value>(&text) else { return Flow::Fail };
                match out {
                    Out::Scalar(name) => {
                        self.vars.insert(name.clone(), Val { v, tet: Tet { peer: peer_id, service: service.clone(), function: fname.clone(), lens: String::new() } });
                    }
                    Out::Stream(_) => {
                        self.out.supported = false;
                        self.out.why_unsupported = "stream output".into();
                    }
                    Out::None => {}
                }
                Flow::Complete
            }
            Node::Fold { iterable, it, body, last } => {
                let base = match iterable {
                    Arg::Var { name, lens } => {
                        if name.starts_with('$') || name.starts_with('%') {
                            self.out.supported = false;
                            self.out.why_unsupported = "stream fold".into();
                            return Flow::Incomplete;
                        }
                        match self.vars.get(name).cloned() {
                            None => return Flow::Incomplete,
                            Some(b) => match self.apply_lens(&b, lens) {
                                Res::Ok(v) => v,
                                Res::Wait => return Flow::Incomplete,
                                Res::Fail => return Flow::Fail,
                            },
                        }
                    }
                    _ => {
                        self.out.supported = false;
                        self.out.why_unsupported = "fold over non-scalar".into();
                        return Flow::Incomplete;
                    }
                };
                let Some(arr) = base.v.as_array().cloned() else { return Flow::Fail };
                if arr.is_empty() {
                    return Flow::Complete;
                }
                let elems: Vec<Val> = arr
                    .into_iter()
                    .enumerate()
                    .map(|(i, v)| {
                        let mut t = base.tet.clone();
                        t.lens = format!("{}.$.[{i}]", t.lens);
                        Val { v, tet: t }
                    })
                    .collect();
                let saved = self.vars.remove(it);
                self.vars.insert(it.clone(), elems[0].clone());
                self.folds.push(FoldSt { it: it.clone(), elems, idx: 0, body, last: last.as_deref() });
                let f = self.eval(body);
                self.folds.pop();
                self.vars.remove(it);
                if let Some(s) = saved {
                    self.vars.insert(it.clone(), s);
                }
                f
            }
            Node::Next(it) => {
                let Some(pos) = self.folds.iter().rposition(|f| f.it == *it) else {
                    self.out.supported = false;
                    self.out.why_unsupported = "next without fold".into();
                    return Flow::Incomplete;
                };
                let (idx, len, body, last) = {
                    let f = &self.folds[pos];
                    (f.idx, f.elems.len(), f.body, f.last)
                };
                if idx + 1 < len {
                    self.folds[pos].idx = idx + 1;
                    let e = self.folds[pos].elems[idx + 1].clone();
                    let prev = self.vars.insert(it.clone(), e);
                    let f = self.eval(body);
                    self.folds[pos].idx = idx;
                    if let Some(p) = prev {
                        self.vars.insert(it.clone(), p);
                    }
                    f
                } else if let Some(l) = last {
                    self.eval(l)
                } else {
                    Flow::Complete
                }
            }
            Node::ApMap { .. } | Node::Canon { .. } | Node::Raw(_) => {
                self.out.supported = false;
                self.out.why_unsupported = "outside the fragment".into();
                Flow::Complete
            }
        }
    }
}

pub fn evaluate(sc: &Scenario, ids: &[String]) -> RResult {
    let ast = sc.ast.clone();
    let mut ev = Ev { sc, ids, vars: BTreeMap::new(), folds: vec![], out: RResult { calls: vec![], supported: true, why_unsupported: String::new() }, steps: 0 };
    let _ = ev.eval(&ast);
    ev.out
}
