//! Forge operations: structure-aware Byzantine tampering (attacker re-signs only its own result set),
//! wholesale re-attribution with adversarial structure (C01), byte corruption, version restamping,
//! replay under another particle id, script substitution.

use crate::interp;
use crate::world::{Msg, World};
use air_interpreter_data::InterpreterData;
use serde::{Deserialize, Serialize};
use serde_json::{json, Value};
use std::rc::Rc;

#[derive(Clone, Debug, Serialize, Deserialize, PartialEq)]
pub enum ForgeOp {
    // ---- transport-level ----
    Restamp(String),
    FlipBit { off: u32, bit: u8, inner: bool },
    Truncate { keep: u32, inner: bool },
    Extend { n: u32, byte: u8, inner: bool },
    ZeroWindow { off: u32, len: u32, inner: bool },
    Splice { other: (u32, u32), at: u32 },
    OtherParticle(String),
    Script(String),
    // ---- structure-aware (C14 catalog); `n` selects the n-th candidate target deterministically ----
    ValueSwap { n: u32 },
    CidRewrite { n: u32 },
    TetrapletChange { n: u32, field: u8 },
    ArgHashChange { n: u32 },
    Relocate { n: u32, m: u32 },
    KindExecutedFailed { n: u32 },
    KindScalarStream { n: u32 },
    KindUnusedScalar { n: u32 },
    SigSwap { n: u32 },
    SigRemove { n: u32 },
    SigOwnUnderOther { n: u32 },
    TruncateResults { n: u32 },
    CanonRewrite { n: u32 },
    /// the sender rewrites one of its own results and re-signs (equivocation, C15)
    OwnRewrite { n: u32 },
    // ---- wholesale re-attribution + structural mutation (C01) ----
    Reattribute,
    Struct { path_sel: u32, kind: u8, val: u64 },
}
impl ForgeOp {
    pub fn kind(&self) -> &'static str {
        match self {
            ForgeOp::Restamp(_) => "restamp",
            ForgeOp::FlipBit { .. } => "flipbit",
            ForgeOp::Truncate { .. } => "truncate",
            ForgeOp::Extend { .. } => "extend",
            ForgeOp::ZeroWindow { .. } => "zerowindow",
            ForgeOp::Splice { .. } => "splice",
            ForgeOp::OtherParticle(_) => "other_particle",
            ForgeOp::Script(_) => "script",
            ForgeOp::ValueSwap { .. } => "value_swap",
            ForgeOp::CidRewrite { .. } => "cid_rewrite",
            ForgeOp::TetrapletChange { .. } => "tetraplet_change",
            ForgeOp::ArgHashChange { .. } => "arg_hash_change",
            ForgeOp::Relocate { .. } => "relocate",
            ForgeOp::KindExecutedFailed { .. } => "kind_executed_failed",
            ForgeOp::KindScalarStream { .. } => "kind_scalar_stream",
            ForgeOp::KindUnusedScalar { .. } => "kind_unused_scalar",
            ForgeOp::SigSwap { .. } => "sig_swap",
            ForgeOp::SigRemove { .. } => "sig_remove",
            ForgeOp::SigOwnUnderOther { .. } => "sig_own_under_other",
            ForgeOp::TruncateResults { .. } => "truncate_results",
            ForgeOp::CanonRewrite { .. } => "canon_rewrite",
            ForgeOp::OwnRewrite { .. } => "own_rewrite",
            ForgeOp::Reattribute => "reattribute",
            ForgeOp::Struct { .. } => "struct",
        }
    }
}

fn split_envelope(d: &[u8]) -> Option<(semver::Version, semver::Version, Vec<u8>)> {
    let env = air_interpreter_data::InterpreterDataEnvelope::try_from_slice(d).ok()?;
    Some((env.versions.data_version.clone(), env.versions.interpreter_version.clone(), env.inner_data.to_vec()))
}
fn join_envelope(dv: semver::Version, iv: semver::Version, inner: Vec<u8>) -> Vec<u8> {
    let env = air_interpreter_data::InterpreterDataEnvelope {
        versions: air_interpreter_data::Versions { data_version: dv, interpreter_version: iv },
        inner_data: inner.into(),
    };
    env.serialize().expect("envelope")
}

fn bytes_op(buf: &mut Vec<u8>, op: &ForgeOp) {
    match op {
        ForgeOp::FlipBit { off, bit, .. } => {
            if !buf.is_empty() {
                let i = *off as usize % buf.len();
                buf[i] ^= 1 << (bit % 8);
            }
        }
        ForgeOp::Truncate { keep, .. } => {
            let k = (*keep as usize).min(buf.len());
            buf.truncate(k);
        }
        ForgeOp::Extend { n, byte, .. } => buf.extend(std::iter::repeat(*byte).take(*n as usize)),
        ForgeOp::ZeroWindow { off, len, .. } => {
            if !buf.is_empty() {
                let i = *off as usize % buf.len();
                let e = (i + *len as usize).min(buf.len());
                for b in &mut buf[i..e] {
                    *b = 0;
                }
            }
        }
        _ => {}
    }
}

/// Damage of a stored blob (torn / short / lost-sector write, bit rot): byte ops only.
pub fn damage(bytes: &[u8], op: &ForgeOp) -> Option<Vec<u8>> {
    let mut b = bytes.to_vec();
    match op {
        ForgeOp::FlipBit { inner, .. } | ForgeOp::Truncate { inner, .. } | ForgeOp::Extend { inner, .. } | ForgeOp::ZeroWindow { inner, .. } => {
            if *inner {
                let (dv, iv, mut ib) = split_envelope(&b)?;
                bytes_op(&mut ib, op);
                b = join_envelope(dv, iv, ib);
            } else {
                bytes_op(&mut b, op);
            }
            Some(b)
        }
        _ => None,
    }
}

/// Re-sign `by`'s own result set (and only that) so that the data is consistent for the attacker.
pub fn resign_own(w: &World, data: &mut InterpreterData, by: usize, particle: &str) {
    use air_interpreter_signatures::PeerCidTracker;
    let id = &w.ids[by];
    let mut tracker = PeerCidTracker::new(id.clone());
    // collect CIDs attributed to `by` the way the verifier does
    for st in data.trace.iter() {
        use air_interpreter_data::{CallResult, CanonResult, ExecutedState, ValueRef};
        match st {
            ExecutedState::Call(CallResult::Executed(ValueRef::Scalar(c)))
            | ExecutedState::Call(CallResult::Executed(ValueRef::Stream { cid: c, .. }))
            | ExecutedState::Call(CallResult::Failed(c)) => {
                if let Ok(agg) = data.cid_info.service_result_store.get(c).ok_or(()) {
                    if let Some(t) = data.cid_info.tetraplet_store.get(&agg.tetraplet_cid) {
                        if t.peer_pk == *id {
                            tracker.register(id, c);
                        }
                    }
                }
            }
            ExecutedState::Canon(CanonResult::Executed(c)) => {
                if let Some(agg) = data.cid_info.canon_result_store.get(c) {
                    if let Some(t) = data.cid_info.tetraplet_store.get(&agg.tetraplet) {
                        if t.peer_pk == *id {
                            tracker.register(id, c);
                        }
                    }
                }
            }
            _ => {}
        }
    }
    if let Ok(kp) = air_interpreter_signatures::KeyPair::new(w.keys[by].kp.clone()) {
        if let Ok(sig) = tracker.gen_signature(particle, &kp) {
            data.signatures.put(kp.public(), sig);
        }
    }
}

pub fn forge(w: &World, m: &Msg, by: Option<usize>, ops: &[ForgeOp]) -> Option<Msg> {
    let mut nm = m.clone();
    nm.forged = true;
    if nm.forged_from.is_none() {
        nm.forged_from = Some(m.data.clone());
    }
    for op in ops {
        nm.forge_kinds.push(op.kind().to_string());
    }
    let mut bytes: Vec<u8> = (*m.data).clone();
    let particle = m.particle.clone().unwrap_or_else(|| w.sc.particle_id.clone());
    for op in ops {
        match op {
            ForgeOp::Restamp(v) => {
                let (dv, _iv, inner) = split_envelope(&bytes)?;
                let ver = semver::Version::parse(v).ok()?;
                bytes = join_envelope(dv, ver, inner);
            }
            ForgeOp::FlipBit { inner, .. } | ForgeOp::Truncate { inner, .. } | ForgeOp::Extend { inner, .. } | ForgeOp::ZeroWindow { inner, .. } => {
                if *inner {
                    let (dv, iv, mut ib) = split_envelope(&bytes)?;
                    bytes_op(&mut ib, op);
                    bytes = join_envelope(dv, iv, ib);
                } else {
                    bytes_op(&mut bytes, op);
                }
            }
            ForgeOp::Splice { other, at } => {
                let o = w.msgs.get(other)?;
                let a = (*at as usize).min(bytes.len());
                let b = (*at as usize).min(o.data.len());
                let mut nb = bytes[..a].to_vec();
                nb.extend_from_slice(&o.data[b..]);
                bytes = nb;
            }
            ForgeOp::OtherParticle(p) => {
                nm.particle = Some(p.clone());
                nm.must_reject = Some("other_particle".into());
            }
            ForgeOp::Script(s) => {
                nm.script = Some(Rc::new(s.clone()));
            }
            _ => {
                let by = by?;
                let (dv, iv, inner) = split_envelope(&bytes)?;
                let data = InterpreterData::try_from_slice(&inner).ok()?;
                let (nd, must) = crate::byz::apply(w, data, by, op, &particle)?;
                if let Some(t) = must {
                    nm.must_reject = Some(t);
                }
                let ib = nd.serialize().ok()?;
                bytes = join_envelope(dv, iv, ib);
            }
        }
    }
    // a pair of ops can cancel out (e.g. the same signature swap twice): then nothing was altered
    if nm.must_reject.is_some() && nm.particle.is_none() {
        if let (Ok(a), Ok(b)) = (interp::decode(&m.data), interp::decode(&bytes)) {
            if interp::data_json(&a.data) == interp::data_json(&b.data) && a.version == b.version {
                nm.must_reject = None;
            }
        }
    }
    // withholding is not tampering: dropping a peer's results together with its signature (or dropping a
    // signature of a peer that has no results left) yields data an honest sender could have produced earlier
    if matches!(nm.must_reject.as_deref(), Some("truncate_results") | Some("sig_remove"))
        && nm.particle.is_none()
        && ops.iter().all(|o| matches!(o, ForgeOp::TruncateResults { .. } | ForgeOp::SigRemove { .. }))
    {
        if let (Ok(a), Ok(b)) = (interp::decode(&m.data), interp::decode(&bytes)) {
            let before = cids_by_peer(&a.data);
            let after = cids_by_peer(&b.data);
            let sigs_after: Vec<String> = serde_json::to_value(&b.data.signatures)
                .ok()
                .and_then(|v| v.as_object().map(|o| o.keys().cloned().collect()))
                .unwrap_or_default();
            let mut needs_reject = false;
            for (peer, cids) in after.iter() {
                let pk = pk_string_of_peer(w, peer).unwrap_or_default();
                let has_sig = sigs_after.contains(&pk);
                let unchanged = before.get(peer) == Some(cids);
                if !has_sig || !unchanged {
                    needs_reject = true;
                }
            }
            if !needs_reject {
                nm.must_reject = None;
            }
        }
    }
    nm.data = Rc::new(bytes);
    let _ = json!(null);
    let _: Option<Value> = None;
    let _ = interp::decode;
    Some(nm)
}

pub fn public_key_string(w: &World, peer: usize) -> String {
    air_interpreter_signatures::KeyPair::new(w.keys[peer].kp.clone()).map(|k| k.public().to_string()).unwrap_or_default()
}
pub fn pk_string_of_peer(w: &World, peer_id: &str) -> Option<String> {
    let i = w.ids.iter().position(|x| x == peer_id)?;
    Some(public_key_string(w, i))
}
/// peer ids that have call or canon results in the trace (by stored tetraplet)
pub fn peers_with_results(data: &InterpreterData) -> Vec<String> {
    use air_interpreter_data::{CallResult, CanonResult, ExecutedState, ValueRef};
    let mut v: Vec<String> = vec![];
    for st in data.trace.iter() {
        let p = match st {
            ExecutedState::Call(CallResult::Executed(ValueRef::Scalar(c)))
            | ExecutedState::Call(CallResult::Executed(ValueRef::Stream { cid: c, .. }))
            | ExecutedState::Call(CallResult::Failed(c)) => data
                .cid_info
                .service_result_store
                .get(c)
                .and_then(|a| data.cid_info.tetraplet_store.get(&a.tetraplet_cid))
                .map(|t| t.peer_pk.clone()),
            ExecutedState::Canon(CanonResult::Executed(c)) => data
                .cid_info
                .canon_result_store
                .get(c)
                .and_then(|a| data.cid_info.tetraplet_store.get(&a.tetraplet))
                .map(|t| t.peer_pk.clone()),
            _ => None,
        };
        if let Some(p) = p {
            if !v.contains(&p) {
                v.push(p);
            }
        }
    }
    v
}

/// CIDs of call/canon results attributed (by stored tetraplet) to each peer, in trace order
pub fn cids_by_peer(data: &InterpreterData) -> std::collections::BTreeMap<String, Vec<String>> {
    use air_interpreter_data::{CallResult, CanonResult, ExecutedState, ValueRef};
    let mut out: std::collections::BTreeMap<String, Vec<String>> = Default::default();
    for st in data.trace.iter() {
        let p = match st {
            ExecutedState::Call(CallResult::Executed(ValueRef::Scalar(c)))
            | ExecutedState::Call(CallResult::Executed(ValueRef::Stream { cid: c, .. }))
            | ExecutedState::Call(CallResult::Failed(c)) => data
                .cid_info
                .service_result_store
                .get(c)
                .and_then(|a| data.cid_info.tetraplet_store.get(&a.tetraplet_cid))
                .map(|t| (t.peer_pk.clone(), format!("{c:?}"))),
            ExecutedState::Canon(CanonResult::Executed(c)) => data
                .cid_info
                .canon_result_store
                .get(c)
                .and_then(|a| data.cid_info.tetraplet_store.get(&a.tetraplet))
                .map(|t| (t.peer_pk.clone(), format!("{c:?}"))),
            _ => None,
        };
        if let Some((p, c)) = p {
            out.entry(p).or_default().push(c);
        }
    }
    out
}

pub fn hex(b: &[u8]) -> String {
    let mut s = String::with_capacity(b.len() * 2);
    for x in b {
        s.push_str(&format!("{x:02x}"));
    }
    s
}
pub fn unhex(s: &str) -> Option<Vec<u8>> {
    if s.len() % 2 != 0 {
        return None;
    }
    (0..s.len()).step_by(2).map(|i| u8::from_str_radix(&s[i..i + 2], 16).ok()).collect()
}
