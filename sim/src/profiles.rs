//! Per-property scenario mixes (swarm style: sizes, features, scheduler, enabled fault kinds and
//! host policies are all drawn per history) and the fault-argument generators.

use crate::interp::Limits;
use crate::rngx::Rng;
use crate::script::{self, Flags};
use crate::tamper::ForgeOp;
use crate::world::{MsgId, Scenario, SvcFault, World};
use std::collections::BTreeMap;

pub const VERSION_GRID: &[&str] = &[
    "0.0.1", "0.60.0", "0.60.9", "0.60.99", "0.61.0-alpha", "0.61.0-rc.1", "0.61.0", "0.61.0+build5", "0.61.1", "0.62.0", "0.64.1", "1.0.0", "0.9.0", "0.100.0",
    "0.61.1-beta", "0.60.0+x",
];

fn pick_faults(rng: &mut Rng, allowed: &[(&str, u32)], max_kinds: usize) -> BTreeMap<String, u32> {
    let mut m = BTreeMap::new();
    let k = rng.below(max_kinds + 1);
    let mut idx: Vec<usize> = (0..allowed.len()).collect();
    rng.shuffle(&mut idx);
    for i in idx.into_iter().take(k) {
        let (name, rate) = allowed[i];
        let r = if rng.chance(50) { rate } else { rate / 3 + 1 };
        m.insert(name.to_string(), r);
    }
    m
}

const HONEST_LOSSLESS: &[(&str, u32)] = &[("dup", 200), ("stale", 80), ("stall", 300), ("partition", 400), ("crash_durable", 60), ("lose_run", 50)];
const LOSSY: &[(&str, u32)] = &[("drop", 120), ("crash_volatile", 60), ("dup", 200), ("stale", 80), ("stall", 300), ("partition", 400)];

pub fn build(prop: &str, seed: u64, hist: u64, rng: &mut Rng, ids: &[String]) -> Scenario {
    let np = 2 + rng.below(4); // 2..=5 participants
    let depth = 3 + rng.below(4);
    let mut flags = Flags::random(rng);
    let mut profile = "honest".to_string();
    let mut fault_cfg: BTreeMap<String, u32>;
    let mut svc_faults: BTreeMap<String, SvcFault> = BTreeMap::new();
    let mut limits: Vec<Limits> = vec![];
    let sub = rng.below(100);
    match prop {
        "C16" | "C17" | "C18" => {
            flags = Flags::frag16(rng);
            if prop == "C17" && rng.chance(50) {
                flags.streams = true;
                flags.canon = true;
                flags.scalar_ap = true;
                flags.lenses = true;
                flags.frag16 = false;
            }
            fault_cfg = if sub < 60 { pick_faults(rng, HONEST_LOSSLESS, 2) } else { pick_faults(rng, LOSSY, 2) };
            if sub >= 60 {
                profile = "lossy".into();
            }
        }
        "C05" | "C19" | "C08" | "C11" | "C12" | "C13" => {
            fault_cfg = pick_faults(rng, HONEST_LOSSLESS, 3);
            if prop == "C05" {
                fault_cfg.insert("dup".into(), 350);
                fault_cfg.insert("misroute".into(), 200);
            }
            if prop == "C12" {
                // the order a peer has seen must survive every later run: revisit peers often
                fault_cfg.insert("dup".into(), 300);
                fault_cfg.insert("stale".into(), 200);
            }
        }
        "C06" => {
            fault_cfg = pick_faults(rng, HONEST_LOSSLESS, 2);
            if sub < 60 {
                profile = "bogus".into();
                fault_cfg.insert("bogus_ids".into(), 250);
            }
        }
        "C02" => {
            fault_cfg = pick_faults(rng, LOSSY, 2);
            if sub < 30 {
                profile = "honest".into();
                flags.uncaught = rng.chance(50);
            } else if sub < 45 {
                profile = "garbage".into();
            } else if sub < 60 {
                profile = "bogus".into();
                fault_cfg.insert("bogus_ids".into(), 250);
            } else if sub < 80 {
                profile = "corrupt".into();
                fault_cfg.insert("corrupt".into(), 250);
            } else {
                profile = "byz".into();
                fault_cfg.insert("byz".into(), 400);
            }
        }
        "C01" => {
            fault_cfg = pick_faults(rng, HONEST_LOSSLESS, 1);
            if sub < 30 {
                profile = "corrupt".into();
                fault_cfg.insert("corrupt".into(), 400);
                if rng.chance(50) {
                    fault_cfg.insert("torn_store".into(), 150);
                }
            } else if sub < 42 {
                // honest peers, boundary-valued service results at every consuming position
                profile = "odd".into();
            } else if sub < 58 {
                // the script that travels with the particle and the bytes handed in as call results are attacker-controlled too
                profile = "fuzz".into();
                fault_cfg.insert("script_mut".into(), 350);
                fault_cfg.insert("raw_results".into(), 200);
            } else {
                profile = "byz".into();
                fault_cfg.insert("byz".into(), 500);
                fault_cfg.insert("reattribute".into(), 600);
            }
        }
        "C14" => {
            profile = "byz".into();
            fault_cfg = pick_faults(rng, HONEST_LOSSLESS, 1);
            fault_cfg.insert("byz".into(), 650);
        }
        "C15" => {
            profile = "rollback".into();
            fault_cfg = pick_faults(rng, HONEST_LOSSLESS, 1);
            fault_cfg.insert("dup".into(), 250);
            fault_cfg.insert("stale".into(), 150);
            if sub < 65 {
                fault_cfg.insert("rollback".into(), 150);
            } else {
                // a sender that signs two different versions of its own results
                profile = "equivocate".into();
                fault_cfg.insert("equivocate".into(), 250);
            }
        }
        "C21" => {
            profile = "version".into();
            fault_cfg = pick_faults(rng, HONEST_LOSSLESS, 1);
            fault_cfg.insert("restamp".into(), 400);
        }
        "C22" => {
            profile = "limits".into();
            fault_cfg = pick_faults(rng, HONEST_LOSSLESS, 1);
        }
        "C03" => {
            fault_cfg = if sub < 70 { pick_faults(rng, HONEST_LOSSLESS, 3) } else { pick_faults(rng, LOSSY, 2) };
            if sub >= 70 {
                profile = "lossy".into();
            }
            if rng.chance(25) {
                profile = format!("{profile}+garbage");
            }
            flags.uncaught = rng.chance(20);
        }
        "C20" => {
            fault_cfg = if sub < 60 { pick_faults(rng, HONEST_LOSSLESS, 3) } else { pick_faults(rng, LOSSY, 2) };
            if sub >= 60 {
                profile = "lossy".into();
            }
            if rng.chance(25) {
                profile = "bogus".into();
                fault_cfg.insert("bogus_ids".into(), 300);
            } else if rng.chance(8) {
                profile = "badscript".into();
                fault_cfg.insert("script_undef".into(), 300);
            } else if rng.chance(20) {
                profile = "corrupt".into();
                fault_cfg.insert("corrupt".into(), 250);
            }
            flags.uncaught = rng.chance(30);
        }
        _ => {
            // C04, C07, C09, C10: honest profiles, all schedule faults
            fault_cfg = if sub < 70 { pick_faults(rng, HONEST_LOSSLESS, 3) } else { pick_faults(rng, LOSSY, 2) };
            if sub >= 70 {
                profile = "lossy".into();
            }
        }
    }
    if fault_cfg.contains_key("dup") && !fault_cfg.contains_key("misroute") && rng.chance(50) {
        fault_cfg.insert("misroute".into(), 300);
    }
    if prop == "C11" {
        flags.streams = true;
        flags.canon = true;
        flags.folds = true;
    }
    let fixed = std::env::var("VERIF_FIXED_SCRIPT").unwrap_or_default();
    let ast = match prop {
        _ if fixed == "f1" => crate::script2::gen_f1(rng, np),
        "C18" => script::gen_c18(rng, np),
        "C01" if profile == "odd" => crate::script3::gen_odd(rng, np),
        "C20" if rng.chance(20) => crate::script3::gen_maps(rng, np),
        "C03" | "C07" | "C09" | "C10" | "C04" if rng.chance(5) => crate::script3::gen_maps(rng, np),
        "C12" if rng.chance(50) => crate::script3::gen_c12(rng, np),
        "C15" if rng.chance(35) => crate::script3::gen_c15(rng, np),
        "C13" if hist % 331 == 5 => crate::script3::gen_c13_limit(rng, np),
        "C13" => script::gen_c13(rng, np),
        "C11" if rng.chance(12) => crate::script3::gen_maps(rng, np),
        "C11" if rng.chance(70) => crate::script2::gen_c11(rng, np),
        _ => script::generate(rng, np, &flags, depth),
    };
    let mut ast = ast;
    if prop == "C15" && rng.chance(50) {
        // repeated content ids in one peer's result multiset (C15 compares multisets, not sets)
        crate::script3::alias_calls(&mut ast, rng);
    }
    let script_text = script::render(&ast, ids);
    // service faults: drawn once per scenario (services stay deterministic within a history)
    if profile.contains("garbage") {
        let mut calls = vec![];
        ast.calls(&mut calls);
        for c in calls {
            if let script::Node::Call { fname, .. } = c {
                if rng.chance(15) {
                    svc_faults.insert(fname.clone(), SvcFault::Garbage);
                }
            }
        }
    }
    if prop == "C22" {
        // limits are drawn by the C22 machinery relative to real sizes once they are known (monitors2::c22)
        // per-peer knobs for the whole history; boundary values around real sizes are drawn per run by monitors2::c22
        let grid = [0u64, 50, 200, 500, 1000, 3000, 10000];
        for _ in 0..np {
            let mut l = Limits::default();
            if rng.chance(40) {
                l.air = grid[rng.below(grid.len())];
            }
            if rng.chance(40) {
                l.particle = grid[rng.below(grid.len())];
            }
            if rng.chance(40) {
                l.call_result = grid[rng.below(grid.len())];
            }
            l.hard = rng.chance(35);
            limits.push(l);
        }
        let mut calls = vec![];
        ast.calls(&mut calls);
        for c in calls {
            if let script::Node::Call { fname, .. } = c {
                let plain = fname.starts_with('f') && fname[1..].chars().all(|c| c.is_ascii_digit());
                if rng.chance(10) && plain {
                    svc_faults.insert(fname.clone(), SvcFault::Oversize(200 + rng.below(800) as u32));
                }
            }
        }
    }
    let sched = ["uniform", "uniform", "pct", "fifo", "starve"][rng.below(5)].to_string();
    let host_feed = ["one", "all", "subset", "withmsg"][rng.below(4)].to_string();
    Scenario {
        prop: prop.to_string(),
        seed,
        hist,
        np,
        ast,
        script: script_text,
        flags,
        svc_faults,
        limits,
        particle_id: format!("particle-{}", rng.below(1000)),
        timestamp: 1_700_000_000 + rng.below(100000) as u64,
        ttl: 1000 + rng.below(100000) as u32,
        profile,
        sched,
        fault_cfg,
        host_eager: true,
        host_feed,
        byz: None,
    }
}

pub fn draw_bogus(w: &World, rng: &mut Rng, peer: usize) -> Vec<(String, i32, String)> {
    let mut v = vec![];
    let p = &w.peers[peer];
    let kind = rng.below(4);
    let val = serde_json::json!({"f": "bogus", "a": [rng.below(1000)]}).to_string();
    match kind {
        0 => {
            // unknown id
            let mx = p.pending.keys().chain(p.consumed.keys()).max().cloned().unwrap_or(0);
            v.push(((mx + 7 + rng.below(50) as u32).to_string(), 0, val));
        }
        1 => {
            // already consumed id
            let c: Vec<&u32> = p.consumed.keys().collect();
            if !c.is_empty() {
                v.push((c[rng.below(c.len())].to_string(), 0, val));
            }
        }
        2 => {
            // id of another peer's pending request
            let others: Vec<u32> = w.peers.iter().enumerate().filter(|(i, _)| *i != peer).flat_map(|(_, q)| q.pending.keys().cloned()).filter(|id| !p.pending.contains_key(id)).collect();
            if !others.is_empty() {
                v.push((others[rng.below(others.len())].to_string(), 0, val));
            }
        }
        _ => {
            // two unknown ids at once
            let mx = p.pending.keys().chain(p.consumed.keys()).max().cloned().unwrap_or(0);
            v.push(((mx + 100).to_string(), 0, val.clone()));
            v.push(((mx + 101).to_string(), 3, "\"err\"".into()));
        }
    }
    v
}

pub fn draw_forge(w: &World, rng: &mut Rng, mid: MsgId, from: usize, byz: Option<usize>) -> Option<Vec<ForgeOp>> {
    let cfg = &w.sc.fault_cfg;
    let len = w.msgs.get(&mid).map(|m| m.data.len()).unwrap_or(0) as u32;
    if let Some(r) = cfg.get("restamp") {
        if (rng.u32() % 1000) < *r {
            return Some(vec![ForgeOp::Restamp(VERSION_GRID[rng.below(VERSION_GRID.len())].to_string())]);
        }
        return None;
    }
    if Some(from) == byz {
        if let Some(r) = cfg.get("byz") {
            if (rng.u32() % 1000) < *r {
                return crate::byz::draw(w, rng, mid, from);
            }
        }
        return None;
    }
    if let Some(r) = cfg.get("equivocate") {
        if (rng.u32() % 1000) < *r {
            return Some(vec![ForgeOp::OwnRewrite { n: rng.u32() % 64 }]);
        }
        return None;
    }
    if let Some(r) = cfg.get("script_undef") {
        // a script the validator rejects for several reasons at once (C20: which one is reported, and in what order,
        // must not depend on the run)
        if (rng.u32() % 1000) < *r {
            let k = rng.below(100);
            let s = format!(
                "(seq {} (seq (call %init_peer_id% (\"svc\" \"u\") [undef_a{k} undef_b{k} undef_c{k}]) (fold undef_i{k} it{k} (seq (call %init_peer_id% (\"svc\" \"w\") [undef_d{k}]) (next it{k})))))",
                w.sc.script
            );
            return Some(vec![ForgeOp::Script(s)]);
        }
        return None;
    }
    if let Some(r) = cfg.get("script_mut") {
        if (rng.u32() % 1000) < *r {
            return Some(vec![ForgeOp::Script(crate::fuzz::mutate_script(rng, &w.sc.script))]);
        }
    }
    if let Some(r) = cfg.get("corrupt") {
        if (rng.u32() % 1000) < *r && len > 0 {
            let inner = rng.chance(50);
            let op = match rng.below(6) {
                0 | 1 => ForgeOp::FlipBit { off: rng.u32() % len, bit: (rng.u32() % 8) as u8, inner },
                2 => ForgeOp::Truncate { keep: rng.u32() % len, inner },
                3 => ForgeOp::Extend { n: 1 + rng.u32() % 64, byte: (rng.u32() % 256) as u8, inner },
                4 => ForgeOp::ZeroWindow { off: rng.u32() % len, len: 1 + rng.u32() % 32, inner },
                _ => {
                    let others: Vec<MsgId> = w.msgs.keys().filter(|k| **k != mid).cloned().collect();
                    if others.is_empty() {
                        ForgeOp::FlipBit { off: rng.u32() % len, bit: 0, inner }
                    } else {
                        ForgeOp::Splice { other: others[rng.below(others.len())], at: rng.u32() % len }
                    }
                }
            };
            return Some(vec![op]);
        }
    }
    None
}
