//! Directed generator for C01: service results that are legal JSON but sit on type and range boundaries
//! ("odd" values), consumed at every position a value can reach: `fail`, `ap` (scalar, stream, map key and
//! map value), lenses, `match`/`mismatch`, fold iterables, call triplets, canon and canon-map arguments.
//! The interpreter may answer with any error; it must not panic, hang or blow the memory budget.

use crate::rngx::Rng;
use crate::script::{Arg, Node, Out, PeerRef};

/// Raw JSON texts handed back by the `odd<N>` services (returned verbatim, not re-rendered).
pub const ODD: &[&str] = &[
    "18446744073709551615",
    "-9223372036854775808",
    "9223372036854775808",
    "1.5",
    "-0",
    "-0.0",
    "1e308",
    "1e-320",
    "null",
    "true",
    "\"\"",
    "\"\\u0000\"",
    "[]",
    "{}",
    "[null]",
    "[[]]",
    "[1,\"a\",null,{},[2]]",
    "{\"error_code\":18446744073709551615,\"message\":\"m\"}",
    "{\"error_code\":9223372036854775807,\"message\":\"m\"}",
    "{\"error_code\":-9223372036854775808,\"message\":\"m\"}",
    "{\"error_code\":0,\"message\":\"m\"}",
    "{\"error_code\":-1,\"message\":1}",
    "{\"error_code\":1.5,\"message\":\"m\"}",
    "{\"error_code\":\"1\",\"message\":\"m\"}",
    "{\"error_code\":1}",
    "{\"message\":\"m\"}",
    "{\"error_code\":7,\"message\":\"m\",\"instruction\":[],\"peer_id\":5}",
    "{\"error_code\":7,\"message\":\"\\ud83d\\ude00 \\\" ) (null\"}",
    "{\"key\":\"k\",\"value\":1}",
    "{\"key\":18446744073709551615,\"value\":1}",
    "{\"key\":-1,\"value\":null}",
    "{\"key\":1.5,\"value\":1}",
    "{\"key\":null,\"value\":1}",
    "{\"key\":\"k\"}",
    "{\"value\":1}",
    "{\"\":\"\"}",
    "{\"a\":1,\"a\":2}",
    " 1 ",
    "\"\\\") (null) (\\\"\"",
    "[18446744073709551615,-1,1.0]",
    "[\"1\",1,1.0,true]",
    "{\"a\":{\"b\":[]},\"c\":[],\"f\":null,\"x\":{}}",
    "\"12D3KooWFLMvg21E6PxBAb5Qhf1D2qSwFSba8qDb1VsFhbP2Jfwv\"",
    "4294967296",
    "4294967295",
    "-1",
    "0",
];

pub fn odd_value(n: usize) -> String {
    let k = n % (ODD.len() + 2);
    if k == ODD.len() {
        // deep nesting
        let d = 200;
        format!("{}{}", "[".repeat(d), "]".repeat(d))
    } else if k == ODD.len() + 1 {
        format!("\"{}\"", "x".repeat(20_000))
    } else {
        ODD[k].to_string()
    }
}

fn call(peer: usize, fname: String, args: Vec<Arg>, out: Out) -> Node {
    Node::Call { peer: PeerRef::Lit(peer), service: "svc".into(), fname, args, out }
}
fn raw(s: String) -> Node {
    Node::Raw(s)
}

pub fn gen_odd(rng: &mut Rng, np: usize) -> Node {
    let mut id = 0usize;
    let mut next = |id: &mut usize| {
        *id += 1;
        *id
    };
    let nsrc = 1 + rng.below(3);
    let mut vars: Vec<String> = vec![];
    // the validator wants every variable defined textually before its use
    let mut nodes: Vec<Node> = vec![raw("(ap (\"k\" \"v0\") %om)".into()), raw("(ap \"o0\" $o)".into())];
    for _ in 0..nsrc {
        let k = next(&mut id);
        let n = rng.below(ODD.len() + 2);
        let v = format!("v{k}");
        let failing = rng.chance(10);
        let fname = if failing { format!("oddfail{n}") } else { format!("odd{n}") };
        let out = if rng.chance(20) { Out::Stream("$o".into()) } else { Out::Scalar(v.clone()) };
        if let Out::Scalar(_) = out {
            vars.push(v.clone());
        }
        let c = call(rng.below(np), fname, vec![], out);
        nodes.push(if failing { Node::xor(c, Node::Null) } else { c });
    }
    if vars.is_empty() {
        let k = next(&mut id);
        let n = rng.below(ODD.len() + 2);
        vars.push(format!("v{k}"));
        nodes.push(call(rng.below(np), format!("odd{n}"), vec![], Out::Scalar(format!("v{k}"))));
    }
    let ncons = 2 + rng.below(5);
    for _ in 0..ncons {
        let v = vars[rng.below(vars.len())].clone();
        let w = vars[rng.below(vars.len())].clone();
        let p = rng.below(np);
        let k = next(&mut id);
        let f = |k: usize, args: &str| format!("(call %init_peer_id% (\"svc\" \"f{k}\") [{args}] r{k})");
        let lens = ["", ".$.error_code", ".$.message", ".$.[0]", ".$.key", ".$.a.b", ".$.[0].[0]", ".$.value"][rng.below(8)];
        let c: Node = match rng.below(22) {
            0 => raw(format!("(fail {v})")),
            1 => raw(format!("(xor (fail {v}) {})", f(k, "%last_error% :error: %last_error%.$.error_code :error:.$.message"))),
            2 => raw(format!("(xor (fail {v}) (fail :error:))")),
            3 => raw(format!("(xor (fail {v}) (fail %last_error%))")),
            4 => raw(format!("(ap {v}{lens} $o)")),
            5 => raw(format!("(ap {v}{lens} s{k})")),
            6 => raw(format!("(ap ({v}{lens} \"val\") %om)")),
            7 => raw(format!("(ap (\"k\" {v}{lens}) %om)")),
            8 => raw(format!("(ap ({v} {w}) %om)")),
            9 => raw(format!("(ap ({v}{lens} {w}{lens}) %om)")),
            10 => raw(format!("(match {v}{lens} {w} {})", f(k, &v))),
            11 => raw(format!("(mismatch {v}{lens} {} {})", ["1", "[]", "\"\"", "true", "1.5"][rng.below(5)], f(k, &v))),
            12 => raw(format!("(fold {v}{lens} it{k} (seq {} (next it{k})))", f(k, &format!("it{k}")))),
            13 => raw(format!("(call {v}{lens} (\"svc\" \"f{k}\") [] r{k})")),
            14 => raw(format!("(call %init_peer_id% ({v}{lens} \"f{k}\") [] r{k})")),
            15 => raw(format!("(call %init_peer_id% (\"svc\" {v}{lens}) [] r{k})")),
            16 => Node::seq(
                Node::Canon { peer: PeerRef::Lit(p), src: "$o".into(), dst: format!("#oc{k}") },
                raw(f(k, &format!("#oc{k} #oc{k}.$.[0]{} #oc{k}.length", if lens.starts_with(".$.[") { "" } else { lens.trim_start_matches(".$") }))),
            ),
            17 => Node::seq(
                Node::Canon { peer: PeerRef::Lit(p), src: "%om".into(), dst: format!("#%ocm{k}") },
                raw(f(k, &format!("#%ocm{k} #%ocm{k}.$.k #%ocm{k}.$.[0]"))),
            ),
            18 => Node::seq(Node::Canon { peer: PeerRef::Lit(p), src: "%om".into(), dst: format!("cm{k}") }, raw(f(k, &format!("cm{k}")))),
            19 => raw(format!("(fold %om it{k} (seq {} (next it{k})))", f(k, &format!("it{k}")))),
            20 => Node::seq(
                Node::Canon { peer: PeerRef::Lit(p), src: "%om".into(), dst: format!("#%ocm{k}") },
                raw(format!("(fold #%ocm{k} it{k} (seq {} (next it{k})))", f(k, &format!("it{k} it{k}.$.key")))),
            ),
            _ => raw(f(k, &format!("{v} {v}{lens} {w}"))),
        };
        // consumers may fail: wrap so that later consumers still run in most histories
        let c = match rng.below(5) {
            0 => c,
            1 => Node::par(c, Node::Null),
            _ => Node::xor(c, Node::Null),
        };
        nodes.push(c);
    }
    let mut it = nodes.into_iter();
    let mut acc = it.next().unwrap();
    for n in it {
        acc = Node::seq(acc, n);
    }
    acc
}

/// Directed generator for stream maps: keys of different JSON types that render alike ("1" and 1), values with
/// their own tetraplets (results of different calls), the map canonicalized and consumed whole, by key, by
/// fold and as a scalar; more values appended between two canons.
pub fn gen_maps(rng: &mut Rng, np: usize) -> Node {
    use crate::script::Lens;
    let mut id = 0usize;
    let mut next = |id: &mut usize| {
        *id += 1;
        *id
    };
    let var = |n: &str| Arg::Var { name: n.to_string(), lens: vec![] };
    let ncalls = 2 + rng.below(4);
    let mut vals: Vec<String> = vec![];
    let mut producers: Vec<Node> = vec![];
    for _ in 0..ncalls {
        let k = next(&mut id);
        let v = format!("v{k}");
        producers.push(call(rng.below(np), format!("f{k}"), vec![], Out::Scalar(v.clone())));
        vals.push(v);
    }
    // producers in par or seq
    let mut it = producers.into_iter();
    let mut acc = it.next().unwrap();
    for n in it {
        acc = if rng.chance(50) { Node::par(acc, n) } else { Node::seq(acc, n) };
    }
    let m = "%m1".to_string();
    let key = |rng: &mut Rng| -> Arg {
        match rng.below(6) {
            0 => Arg::Str(format!("k{}", rng.below(2))),
            1 | 2 => Arg::Str(format!("{}", rng.below(2))),
            3 | 4 => Arg::Num(rng.below(2) as i64),
            _ => Arg::Str("k0".into()),
        }
    };
    let mut ap_batch = |rng: &mut Rng, vals: &Vec<String>, n: usize| -> Node {
        let mut acc: Option<Node> = None;
        for _ in 0..n {
            let val = if rng.chance(75) { var(&vals[rng.below(vals.len())]) } else { Arg::Str(format!("lit{}", rng.below(3))) };
            let a = Node::ApMap { key: key(rng), val, dst: "%m1".into() };
            acc = Some(match acc {
                None => a,
                Some(x) => Node::seq(x, a),
            });
        }
        acc.unwrap()
    };
    let n1 = 2 + rng.below(4);
    acc = Node::seq(acc, ap_batch(rng, &vals, n1));
    let rounds = 1 + rng.below(2);
    for _ in 0..rounds {
        let k = next(&mut id);
        let p = rng.below(np);
        let c = format!("#%cm{k}");
        acc = Node::seq(acc, Node::Canon { peer: PeerRef::Lit(p), src: m.clone(), dst: c.clone() });
        let nuse = 1 + rng.below(3);
        for _ in 0..nuse {
            let k2 = next(&mut id);
            let q = if rng.chance(60) { p } else { rng.below(np) };
            let whole = Arg::Canon { name: c.clone(), lens: vec![] };
            let by_key = Arg::Canon { name: c.clone(), lens: vec![if rng.chance(50) { Lens::Field("k0".into()) } else { Lens::Idx(rng.below(2) as u32) }] };
            let u = match rng.below(6) {
                0 | 1 => call(q, format!("f{k2}"), vec![whole], Out::Scalar(format!("r{k2}"))),
                2 => Node::xor(call(q, format!("f{k2}"), vec![by_key], Out::Scalar(format!("r{k2}"))), Node::Null),
                3 => call(q, format!("f{k2}"), vec![whole.clone(), by_key, whole], Out::Stream("$sm".into())),
                4 => {
                    let itn = format!("it{k2}");
                    Node::Fold {
                        iterable: whole,
                        it: itn.clone(),
                        body: Box::new(Node::seq(call(q, format!("f{k2}"), vec![var(&itn)], Out::None), Node::Next(itn))),
                        last: None,
                    }
                }
                _ => Node::seq(
                    Node::Canon { peer: PeerRef::Lit(q), src: m.clone(), dst: format!("cs{k2}") },
                    call(q, format!("f{k2}"), vec![var(&format!("cs{k2}"))], Out::None),
                ),
            };
            acc = Node::seq(acc, u);
        }
        let n2 = 1 + rng.below(2);
        acc = Node::seq(acc, ap_batch(rng, &vals, n2));
    }
    acc
}

/// C13 at the stream size limit: n*m `ap`s into one stream in a single run (no service round trips), with the
/// product drawn around STREAM_MAX_SIZE; then the stream is canonicalized and its length handed to a probe.
/// Optionally the appends come from two peers (the second batch arrives by merge).
pub fn gen_c13_limit(rng: &mut Rng, np: usize) -> Node {
    let var = |n: &str| Arg::Var { name: n.to_string(), lens: vec![] };
    let pairs: &[(usize, usize)] = &[(31, 33), (32, 32), (33, 31), (1, 1023), (1, 1024), (1023, 1), (2, 511), (2, 512), (3, 341), (3, 342), (30, 34), (29, 35), (16, 64), (64, 16), (20, 50)];
    let (n, m) = pairs[rng.below(pairs.len())];
    let p = rng.below(np);
    let q = rng.below(np);
    let r = rng.below(np);
    let inner = Node::Fold {
        iterable: var("b"),
        it: "j".into(),
        body: Box::new(Node::seq(Node::Ap { src: var("j"), dst: "$big".into() }, Node::Next("j".into()))),
        last: None,
    };
    let outer = Node::Fold { iterable: var("a"), it: "i".into(), body: Box::new(Node::seq(inner, Node::Next("i".into()))), last: None };
    let tail = Node::seq(
        Node::Canon { peer: PeerRef::Lit(r), src: "$big".into(), dst: "#cb".into() },
        call(r, "len1".into(), vec![Arg::Length { name: "#cb".into() }], Out::None),
    );
    Node::seq(
        call(p, format!("big{n}"), vec![], Out::Scalar("a".into())),
        Node::seq(call(q, format!("bigb{m}"), vec![], Out::Scalar("b".into())), Node::seq(outer, tail)),
    )
}

/// Directed generator for C12: one stream appended from several peers in different `par` branches (so values that
/// come first in the script can reach a peer later than values appended further on), one or two folds over it
/// placed between append groups, more appends afterwards, and a canon + probe at the end. Peers are revisited by
/// the duplicate / stale deliveries of the profile.
pub fn gen_c12(rng: &mut Rng, np: usize) -> Node {
    let mut idc = 0usize;
    let mut id = |c: &mut usize| {
        *c += 1;
        *c
    };
    let var = |n: &str| Arg::Var { name: n.to_string(), lens: vec![] };
    fn group(rng: &mut Rng, np: usize, n: usize, idc: &mut usize) -> Node {
        let mut acc: Option<Node> = None;
        for _ in 0..n {
            *idc += 1;
            let k = *idc;
            let a = if rng.chance(15) {
                Node::Ap { src: Arg::Str(format!("l{k}")), dst: "$s".into() }
            } else {
                Node::Call { peer: PeerRef::Lit(rng.below(np)), service: "svc".into(), fname: format!("f{k}"), args: vec![], out: Out::Stream("$s".into()) }
            };
            acc = Some(match acc {
                None => a,
                Some(x) => {
                    if rng.chance(70) {
                        if rng.chance(50) { Node::par(x, a) } else { Node::par(a, x) }
                    } else {
                        Node::seq(x, a)
                    }
                }
            });
        }
        acc.unwrap()
    }
    let mut fold = |rng: &mut Rng, idc: &mut usize| -> Node {
        let k = id(idc);
        let it = format!("it{k}");
        let probe = call(rng.below(np), format!("f{k}"), vec![var(&it)], Out::None);
        let body = if rng.chance(50) { Node::par(probe, Node::Next(it.clone())) } else { Node::seq(probe, Node::Next(it.clone())) };
        Node::Fold { iterable: var("$s"), it, body: Box::new(body), last: Some(Box::new(Node::Null)) }
    };
    let n1 = 2 + rng.below(3);
    let mut script = group(rng, np, n1, &mut idc);
    let rounds = 1 + rng.below(2);
    for _ in 0..rounds {
        let f = fold(rng, &mut idc);
        let n2 = 1 + rng.below(3);
        let more = group(rng, np, n2, &mut idc);
        script = match rng.below(3) {
            0 => Node::seq(script, Node::seq(f, more)),
            1 => Node::seq(script, Node::par(f, more)),
            _ => Node::seq(Node::par(script, more), f),
        };
    }
    let k = id(&mut idc);
    let p = rng.below(np);
    Node::seq(
        script,
        Node::seq(
            Node::Canon { peer: PeerRef::Lit(p), src: "$s".into(), dst: format!("#c{k}") },
            call(rng.below(np), format!("f{k}"), vec![Arg::Canon { name: format!("#c{k}"), lens: vec![] }], Out::None),
        ),
    )
}

/// C15: make some results repeat. Rule U (unique function names) gives every call its own content id, so a peer's
/// result *multiset* never holds a content id twice; here calls of one peer that have the same literal arguments
/// (and bind a scalar or append to a stream: results nobody binds are not signed) are given one shared function name, which makes their results
/// (value, tetraplet, argument hash - hence the aggregate's content id) equal.
pub fn alias_calls(ast: &mut Node, rng: &mut Rng) -> usize {
    use std::collections::BTreeMap;
    fn literal_only(args: &[Arg]) -> bool {
        args.iter().all(|a| matches!(a, Arg::Str(_) | Arg::Num(_) | Arg::Bool(_) | Arg::EmptyArr))
    }
    // group candidate calls by (peer, rendered args)
    let mut groups: BTreeMap<String, Vec<String>> = BTreeMap::new();
    let mut calls = vec![];
    ast.calls(&mut calls);
    for c in calls {
        if let Node::Call { peer: PeerRef::Lit(p), fname, args, out, .. } = c {
            let plain = fname.starts_with('f') && fname[1..].chars().all(|ch| ch.is_ascii_digit());
            if plain && literal_only(args) && !matches!(out, Out::None) {
                let key = format!("{p}|{}", args.iter().map(crate::script::render_arg).collect::<Vec<_>>().join(" "));
                groups.entry(key).or_default().push(fname.clone());
            }
        }
    }
    let mut rename: BTreeMap<String, String> = BTreeMap::new();
    for (_, names) in groups {
        if names.len() >= 2 && rng.chance(70) {
            let shared = format!("g{}", &names[0][1..]);
            for n in names {
                rename.insert(n, shared.clone());
            }
        }
    }
    let n = rename.len();
    if n > 0 {
        ast.walk_mut(&mut |node| {
            if let Node::Call { fname, .. } = node {
                if let Some(s) = rename.get(fname) {
                    *fname = s.clone();
                }
            }
        });
    }
    n
}

/// Directed generator for C15: one peer runs the same call (same name, no arguments: equal content ids) several
/// times in different par / seq positions next to calls of its own with distinct results and calls on other peers,
/// so that what it has signed at different moments differs in the *multiplicity* of one content id.
pub fn gen_c15(rng: &mut Rng, np: usize) -> Node {
    let a = rng.below(np);
    let mut leaves: Vec<Node> = vec![];
    let mut idc = 0usize;
    let rep = 2 + rng.below(3);
    // results nobody binds (`unused`) are not part of a peer's signed set: every call binds a scalar or appends
    let mut out = |rng: &mut Rng, k: usize| if rng.chance(30) { Out::Stream("$s".into()) } else { Out::Scalar(format!("x{k}")) };
    for i in 0..rep {
        let o = out(rng, i);
        leaves.push(call(a, "g1".into(), vec![], o));
    }
    for _ in 0..(1 + rng.below(3)) {
        idc += 1;
        let o = out(rng, 10 + idc);
        leaves.push(call(a, format!("f{}", 10 + idc), vec![], o));
    }
    for _ in 0..(1 + rng.below(3)) {
        idc += 1;
        let p = rng.below(np);
        let o = out(rng, 10 + idc);
        leaves.push(call(p, format!("f{}", 10 + idc), vec![], o));
    }
    // random binary tree over a random order of the leaves
    for i in (1..leaves.len()).rev() {
        let j = rng.below(i + 1);
        leaves.swap(i, j);
    }
    fn build(rng: &mut Rng, mut v: Vec<Node>) -> Node {
        if v.len() == 1 {
            return v.pop().unwrap();
        }
        let cut = 1 + rng.below(v.len() - 1);
        let right = v.split_off(cut);
        let l = build(rng, v);
        let r = build(rng, right);
        if rng.chance(60) {
            Node::par(l, r)
        } else {
            Node::seq(l, r)
        }
    }
    build(rng, leaves)
}
