//! `sim genstats PROP SEED N`: how often each language feature occurs in generated scripts (generator reach).
use crate::rngx::{mix3, str_hash, Rng};
use crate::script::{Arg, Node};
use std::collections::BTreeMap;

fn walk(n: &Node, c: &mut BTreeMap<&'static str, u64>, in_fold: bool) {
    let mut bump = |k: &'static str| *c.entry(k).or_default() += 1;
    match n {
        Node::Null => bump("null"),
        Node::Never => bump("never"),
        Node::Call { out, args, peer, .. } => {
            bump("call");
            match out {
                crate::script::Out::Stream(_) => bump("call->stream"),
                crate::script::Out::Scalar(_) => bump("call->scalar"),
                _ => bump("call->none"),
            }
            if matches!(peer, crate::script::PeerRef::Var { .. }) {
                bump("call var target");
            }
            for a in args {
                match a {
                    Arg::Canon { .. } => bump("arg canon"),
                    Arg::Var { lens, .. } if !lens.is_empty() => bump("arg lens"),
                    Arg::ErrCode | Arg::ErrMsg => bump("arg :error:"),
                    _ => {}
                }
            }
            if in_fold {
                bump("call in fold");
            }
        }
        Node::Seq(l, r) => {
            bump("seq");
            walk(l, c, in_fold);
            walk(r, c, in_fold);
        }
        Node::Par(l, r) => {
            bump("par");
            walk(l, c, in_fold);
            walk(r, c, in_fold);
        }
        Node::Xor(l, r) => {
            bump("xor");
            walk(l, c, in_fold);
            walk(r, c, in_fold);
        }
        Node::Match { body, .. } => {
            bump("match");
            walk(body, c, in_fold);
        }
        Node::Mismatch { body, .. } => {
            bump("mismatch");
            walk(body, c, in_fold);
        }
        Node::Fail { .. } | Node::FailLastError | Node::FailError => bump("fail"),
        Node::Ap { dst, .. } => {
            if dst.starts_with('$') {
                bump("ap->stream")
            } else {
                bump("ap->scalar")
            }
        }
        Node::ApMap { .. } => bump("ap->map"),
        Node::Canon { src, .. } => {
            if src.starts_with('%') {
                bump("canon map")
            } else {
                bump("canon")
            }
        }
        Node::Fold { iterable, body, last, .. } => {
            match iterable {
                Arg::Var { name, .. } if name.starts_with('$') => bump("fold stream"),
                Arg::Var { name, .. } if name.starts_with('%') => bump("fold map"),
                Arg::Canon { .. } => bump("fold canon"),
                _ => bump("fold scalar"),
            }
            if last.is_some() {
                bump("fold last");
            }
            walk(body, c, true);
            if let Some(l) = last {
                walk(l, c, in_fold);
            }
        }
        Node::Next(_) => {}
        Node::New { var, body } => {
            if var.starts_with('$') {
                bump("new stream")
            } else {
                bump("new scalar")
            }
            walk(body, c, in_fold);
        }
        Node::Raw(_) => {}
    }
}

pub fn run(prop: &str, seed: u64, n: u64) -> i32 {
    let ids: Vec<String> = (0..8).map(|i| format!("peer{i}")).collect();
    let mut per_script: BTreeMap<&'static str, u64> = BTreeMap::new();
    let mut total: BTreeMap<&'static str, u64> = BTreeMap::new();
    let mut sizes = 0u64;
    for h in 0..n {
        let mut rng = Rng::new(mix3(seed, str_hash(prop), h));
        let sc = crate::profiles::build(prop, seed, h, &mut rng, &ids);
        let mut c = BTreeMap::new();
        walk(&sc.ast, &mut c, false);
        sizes += sc.ast.count() as u64;
        for (k, v) in c {
            *per_script.entry(k).or_default() += 1;
            *total.entry(k).or_default() += v;
        }
    }
    println!("{n} scripts for {prop}, mean size {:.1} nodes", sizes as f64 / n as f64);
    for (k, v) in &per_script {
        println!("{k:>18}: in {:5.1}% of scripts, {:.2} per script", *v as f64 * 100.0 / n as f64, total[k] as f64 / n as f64);
    }
    0
}
