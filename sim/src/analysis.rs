//! Static facts about a generated script that the oracles need (who writes which stream,
//! which streams have a single instance, where canons sit, which iterators enclose a call).
use crate::script::{Arg, Node, Out, PeerRef};
use std::collections::{BTreeMap, BTreeSet};

#[derive(Clone, Debug)]
pub struct CallInfo {
    pub fname: String,
    pub peer: PeerRef,
    pub out: Out,
    pub out_stream: Option<String>,
    pub iters: Vec<String>, // enclosing fold iterators, outermost first
    pub args: Vec<Arg>,
    pub under_xor_right: bool,
    pub multi: bool, // sits in the last instruction of a stream fold: runs once per generation, by design (docs/fold.md)
}
#[derive(Clone, Debug)]
pub struct CanonInfo {
    pub name: String,
    pub src: String,
    pub peer: PeerRef,
    pub iters: Vec<String>,
}
#[derive(Clone, Debug, Default)]
pub struct Analysis {
    pub calls: BTreeMap<String, CallInfo>,
    pub canons: BTreeMap<String, CanonInfo>,
    pub single_instance_streams: BTreeSet<String>,
    pub streams_with_ap: BTreeSet<String>,
    pub new_scoped: BTreeSet<String>,
    pub has_streams: bool,
}

fn walk(n: &Node, iters: &mut Vec<String>, an: &mut Analysis, right: bool) {
    walk2(n, iters, an, right, false)
}
fn walk2(n: &Node, iters: &mut Vec<String>, an: &mut Analysis, right: bool, multi: bool) {
    match n {
        Node::Call { peer, fname, args, out, .. } => {
            let out_stream = match out {
                Out::Stream(s) => Some(s.clone()),
                _ => None,
            };
            if out_stream.is_some() {
                an.has_streams = true;
            }
            an.calls.insert(
                fname.clone(),
                CallInfo { fname: fname.clone(), peer: peer.clone(), out: out.clone(), out_stream, iters: iters.clone(), args: args.clone(), under_xor_right: right, multi },
            );
        }
        Node::Seq(l, r) | Node::Par(l, r) => {
            walk2(l, iters, an, right, multi);
            walk2(r, iters, an, right, multi);
        }
        Node::Xor(l, r) => {
            walk2(l, iters, an, right, multi);
            walk2(r, iters, an, true, multi);
        }
        Node::Match { body, .. } | Node::Mismatch { body, .. } => walk2(body, iters, an, right, multi),
        Node::New { var, body } => {
            if var.starts_with('$') || var.starts_with('%') {
                an.new_scoped.insert(var.clone());
                if iters.is_empty() {
                    an.single_instance_streams.insert(var.clone());
                }
            }
            walk2(body, iters, an, right, multi);
        }
        Node::Ap { dst, .. } => {
            if dst.starts_with('$') {
                an.streams_with_ap.insert(dst.clone());
                an.has_streams = true;
            }
        }
        Node::ApMap { .. } => an.has_streams = true,
        Node::Canon { peer, src, dst } => {
            an.has_streams = true;
            an.canons.insert(dst.clone(), CanonInfo { name: dst.clone(), src: src.clone(), peer: peer.clone(), iters: iters.clone() });
        }
        Node::Fold { it, body, last, .. } => {
            iters.push(it.clone());
            walk2(body, iters, an, right, multi);
            iters.pop();
            if let Some(l) = last {
                let stream_fold = matches!(n, Node::Fold { iterable: Arg::Var { name, .. }, .. } if name.starts_with('$') || name.starts_with('%'));
                walk2(l, iters, an, right, multi || stream_fold);
            }
        }
        _ => {}
    }
}

pub fn analyse(ast: &Node) -> Analysis {
    let mut an = Analysis::default();
    let mut iters = vec![];
    walk(ast, &mut iters, &mut an, false);
    // streams never declared by `new` are global: one instance
    let mut all: BTreeSet<String> = BTreeSet::new();
    for c in an.calls.values() {
        if let Some(s) = &c.out_stream {
            all.insert(s.clone());
        }
    }
    for s in &an.streams_with_ap {
        all.insert(s.clone());
    }
    for s in all {
        if !an.new_scoped.contains(&s) {
            an.single_instance_streams.insert(s);
        }
    }
    an
}
