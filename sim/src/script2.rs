//! More directed generators (kept apart from script.rs): C11 canon scripts, F1 trigger scripts.
use crate::rngx::Rng;
use crate::script::{Arg, Node, Out, PeerRef};

fn lit_call(peer: usize, fname: String, args: Vec<Arg>, out: Out) -> Node {
    Node::Call { peer: PeerRef::Lit(peer), service: "svc".into(), fname, args, out }
}
fn var(name: &str) -> Arg {
    Arg::Var { name: name.to_string(), lens: vec![] }
}
fn canon_arg(name: &str) -> Arg {
    Arg::Canon { name: name.to_string(), lens: vec![] }
}

/// C11: a stream appended from several peers (before and after the canon, under seq/par), canonicalized at a
/// designated peer, and read by probe calls on several peers; optionally a second canon of the same stream
/// elsewhere, and a per-iteration new-scoped stream with its own canon inside a scalar fold.
pub fn gen_c11(rng: &mut Rng, np: usize) -> Node {
    let mut n = 0usize;
    let mut id = || {
        n += 1;
        n
    };
    fn appends(rng: &mut Rng, np: usize, depth: usize, stream: &str, extra: &[Arg], id: &mut dyn FnMut() -> usize) -> Node {
        if depth == 0 || rng.chance(30) {
            let i = id();
            return lit_call(rng.below(np), format!("f{i}"), extra.to_vec(), Out::Stream(stream.into()));
        }
        let l = appends(rng, np, depth - 1, stream, extra, id);
        let r = appends(rng, np, depth - 1, stream, extra, id);
        if rng.chance(55) {
            Node::par(l, r)
        } else {
            Node::seq(l, r)
        }
    }
    let mut probes = |rng: &mut Rng, canon: &str, extra: &[Arg], id: &mut dyn FnMut() -> usize| -> Node {
        let k = 1 + rng.below(3);
        let mut node: Option<Node> = None;
        for _ in 0..k {
            let i = id();
            let mut a = vec![canon_arg(canon)];
            a.extend(extra.iter().cloned());
            let c = lit_call(rng.below(np), format!("probeK{i}"), a, Out::None);
            node = Some(match node {
                None => c,
                Some(p) => {
                    if rng.chance(60) {
                        Node::par(p, c)
                    } else {
                        Node::seq(p, c)
                    }
                }
            });
        }
        node.unwrap()
    };
    let d1 = 1 + rng.below(3);
    let before = appends(rng, np, d1, "$s", &[], &mut id);
    let designated = rng.below(np);
    let canon1 = Node::Canon { peer: PeerRef::Lit(designated), src: "$s".into(), dst: "#c1".into() };
    let p1 = probes(rng, "#c1", &[], &mut id);
    let d2 = rng.below(2);
    let after = appends(rng, np, d2, "$s", &[], &mut id);
    // appends racing with the canon, probes after it
    let mut tail = match rng.below(3) {
        0 => Node::seq(canon1, Node::par(p1, after)),
        1 => Node::seq(canon1, Node::seq(after, p1)),
        _ => Node::par(after, Node::seq(canon1, p1)),
    };
    if rng.chance(40) {
        // a second, independent canon of the same stream at another peer
        let c2 = Node::Canon { peer: PeerRef::Lit(rng.below(np)), src: "$s".into(), dst: "#c2".into() };
        let p2 = probes(rng, "#c2", &[], &mut id);
        tail = Node::seq(tail, Node::seq(c2, p2));
    }
    // in a quarter of the scripts the canon is reachable without the appends: the designated peer may canonicalize
    // an empty or partial stream first and see the appended values only in a later run
    let mut script = if rng.chance(25) { Node::par(before, tail) } else { Node::seq(before, tail) };
    if rng.chance(35) {
        // per-iteration stream and canon inside a fold over a scalar array
        let a = id();
        let arrv = format!("v{a}");
        let it = format!("it{a}");
        let extra = vec![var(&it)];
        let app = appends(rng, np, 1, "$t", &extra, &mut id);
        let cn = Node::Canon { peer: PeerRef::Lit(rng.below(np)), src: "$t".into(), dst: "#ct".into() };
        let pr = probes(rng, "#ct", &extra, &mut id);
        let body = Node::New { var: "$t".into(), body: Box::new(Node::seq(app, Node::seq(cn, pr))) };
        let comb = if rng.chance(50) { Node::par(body, Node::Next(it.clone())) } else { Node::seq(body, Node::Next(it.clone())) };
        let fold = Node::seq(
            lit_call(rng.below(np), format!("arr{a}"), vec![], Out::Scalar(arrv.clone())),
            Node::Fold { iterable: var(&arrv), it, body: Box::new(comb), last: None },
        );
        script = if rng.chance(50) { Node::seq(script, fold) } else { Node::par(script, fold) };
    }
    script
}

/// The mainstream trigger of finding F1 (fold over a stream with a sequential body that calls two peers)
/// with small random variations; used by `VERIF_FIXED_SCRIPT=f1` to regenerate the committed replay.
pub fn gen_f1(rng: &mut Rng, np: usize) -> Node {
    let a = 0;
    let b = 1 % np;
    let body = Node::seq(
        Node::seq(lit_call(a, "f10".into(), vec![var("it1")], Out::Scalar("v10".into())), lit_call(b, "f11".into(), vec![var("it1")], Out::None)),
        Node::Next("it1".into()),
    );
    let first = if rng.chance(50) { lit_call(a, "f2".into(), vec![], Out::None) } else { lit_call(a, "f2".into(), vec![], Out::Stream("$s".into())) };
    Node::seq(
        Node::par(first, lit_call(b, "f3".into(), vec![], Out::Stream("$s".into()))),
        Node::seq(Node::Ap { src: Arg::Str("l4".into()), dst: "$s".into() }, Node::Fold { iterable: var("$s"), it: "it1".into(), body: Box::new(body), last: None }),
    )
}
