//! Oracles. Only the monitors of the property being checked can raise a violation.
//! Shadow runs never touch world state and never draw from the history's PRNG stream.

use crate::interp::{self, SvcRes};
use crate::script::{Node, PeerRef};
use crate::world::{inst_key, World};
use air_interpreter_data::*;
use serde::{Deserialize, Serialize};
use std::collections::{BTreeMap, BTreeSet};
use std::rc::Rc;

#[derive(Clone, Debug, Serialize, Deserialize)]
pub struct Violation {
    pub prop: String,
    pub tag: String,
    pub detail: String,
    pub eid: u32,
    pub known: Option<String>,
}

pub struct Mon {
    pub prop: String,
    pub viol: Vec<Violation>,
    pub known_hits: Vec<Violation>,
    pub dec: Vec<Option<Rc<InterpreterData>>>,
    pub stop: bool,
    pub capped: u32,
    pub nontrivial: BTreeSet<u64>,
    pub max_id: Vec<u32>,
    pub last_lcid: Vec<u32>,
    pub issued: Vec<BTreeMap<String, Vec<(u32, u32)>>>,
    pub gen_invalid: Option<String>,
    pub digest: String,
    pub counters: BTreeMap<String, u64>,
    pub known: Rc<crate::known::Known>,
    pub analysis: Rc<crate::analysis::Analysis>,
    pub produced: BTreeMap<String, BTreeSet<String>>, // C14 ground truth: content ids each peer produced itself
    pub rmodel: Option<Rc<crate::refmodel::RResult>>,
    pub extra_taint: BTreeSet<String>,
    pub scratch: BTreeMap<String, Vec<String>>, // per-history oracle state (C11, C13, C18)
}

pub fn class(code: i64) -> char {
    match code {
        0 => '0',
        1..=9999 => 'P',
        10000..=19999 => 'C',
        20000..=29999 => 'U',
        30000 => 'F',
        _ => '?',
    }
}
pub fn new_data_class(code: i64) -> bool {
    matches!(class(code), '0' | 'C' | 'F')
}

pub fn knowledge(d: &InterpreterData) -> BTreeMap<String, usize> {
    let mut m = BTreeMap::new();
    for s in d.trace.iter() {
        let c = match s {
            ExecutedState::Call(CallResult::Executed(ValueRef::Scalar(c))) => Some(format!("S{}", c.get_inner())),
            ExecutedState::Call(CallResult::Executed(ValueRef::Stream { cid, .. })) => Some(format!("S{}", cid.get_inner())),
            ExecutedState::Call(CallResult::Executed(ValueRef::Unused(c))) => Some(format!("U{}", c.get_inner())),
            ExecutedState::Call(CallResult::Failed(c)) => Some(format!("F{}", c.get_inner())),
            ExecutedState::Canon(CanonResult::Executed(c)) => Some(format!("C{}", c.get_inner())),
            _ => None,
        };
        if let Some(c) = c {
            *m.entry(c).or_insert(0) += 1;
        }
    }
    m
}

pub fn check_range(t: &ExecutionTrace, start: usize, end: usize) -> Result<(), String> {
    let mut i = start;
    while i < end {
        match &t[i.try_into().unwrap()] {
            ExecutedState::Par(p) => {
                let (l, rr) = (p.left_size as usize, p.right_size as usize);
                if i + 1 + l + rr > end {
                    return Err(format!("par at {i} ({l},{rr}) exceeds range end {end}"));
                }
                check_range(t, i + 1, i + 1 + l)?;
                check_range(t, i + 1 + l, i + 1 + l + rr)?;
                i += 1 + l + rr;
            }
            ExecutedState::Fold(f) => {
                let mut iv = vec![];
                let mut total = 0usize;
                let mut seen_pos = BTreeSet::new();
                for l in &f.lore {
                    if l.subtraces_desc.len() != 2 {
                        return Err(format!("fold at {i}: desc count {}", l.subtraces_desc.len()));
                    }
                    let vp: usize = l.value_pos.into();
                    if !seen_pos.insert(vp) {
                        return Err(format!("fold at {i}: two iterations for value pos {vp}"));
                    }
                    match t.get(l.value_pos) {
                        Some(ExecutedState::Ap(_)) | Some(ExecutedState::Call(CallResult::Executed(ValueRef::Stream { .. }))) => {}
                        x => return Err(format!("fold at {i}: value_pos {vp} points to {x:?}")),
                    }
                    let b: usize = l.subtraces_desc[0].begin_pos.into();
                    if vp >= b && (l.subtraces_desc[0].subtrace_len > 0 || l.subtraces_desc[1].subtrace_len > 0) {
                        return Err(format!("fold at {i}: value_pos {vp} not before its iteration begin {b}"));
                    }
                    for d in &l.subtraces_desc {
                        let b: usize = d.begin_pos.into();
                        iv.push((b, d.subtrace_len as usize));
                        total += d.subtrace_len as usize;
                    }
                }
                if i + 1 + total > end {
                    return Err(format!("fold at {i} total {total} exceeds end {end}"));
                }
                let mut nz: Vec<_> = iv.iter().filter(|x| x.1 > 0).cloned().collect();
                nz.sort();
                let mut pos = i + 1;
                for (b, l) in nz {
                    if b != pos {
                        return Err(format!("fold at {i}: gap/overlap at {pos}, next interval begins {b}"));
                    }
                    pos = b + l;
                }
                if pos != i + 1 + total {
                    return Err(format!("fold at {i}: tiling ends {pos} != {}", i + 1 + total));
                }
                for (b, _) in iv.iter().filter(|x| x.1 == 0) {
                    if *b < i + 1 || *b > i + 1 + total {
                        return Err(format!("fold at {i}: empty interval at {b} outside"));
                    }
                }
                check_range(t, i + 1, i + 1 + total)?;
                i += 1 + total;
            }
            ExecutedState::Ap(a) => {
                if a.res_generations.len() != 1 || a.res_generations[0] == GenerationIdx::stub() {
                    return Err(format!("ap at {i} gens {:?}", a.res_generations));
                }
                i += 1;
            }
            ExecutedState::Call(CallResult::Executed(ValueRef::Stream { generation, .. })) => {
                if *generation == GenerationIdx::stub() {
                    return Err(format!("stub generation at {i}"));
                }
                i += 1;
            }
            _ => i += 1,
        }
    }
    Ok(())
}

pub fn hash64(s: &str) -> u64 {
    crate::rngx::str_hash(s)
}

/// PreparationError::CidStoreVerificationError
pub const CID_STORE_VERIFICATION_CODE: i64 = 8;

/// replaces every `0x<hex>` by `0xADDR` (rkyv validation errors print raw pointers)
pub fn mask_addresses(s: &str) -> String {
    let b = s.as_bytes();
    let mut out = String::with_capacity(s.len());
    let mut i = 0;
    while i < b.len() {
        if b[i] == b'0' && i + 1 < b.len() && b[i + 1] == b'x' {
            let mut j = i + 2;
            while j < b.len() && b[j].is_ascii_hexdigit() {
                j += 1;
            }
            if j > i + 2 {
                out.push_str("0xADDR");
                i = j;
                continue;
            }
        }
        // safe: we only split at ASCII bytes
        let ch_len = match b[i] {
            x if x < 0x80 => 1,
            x if x >> 5 == 0b110 => 2,
            x if x >> 4 == 0b1110 => 3,
            _ => 4,
        };
        out.push_str(&s[i..(i + ch_len).min(s.len())]);
        i += ch_len;
    }
    out
}

/// (function name, argument hash, value json text) of every service-result aggregate referenced by the trace
fn call_states(d: &InterpreterData) -> Vec<(usize, String, String, String, String)> {
    // (pos, kind, function, arg_hash, value-text)
    let mut v = vec![];
    for (i, s) in d.trace.iter().enumerate() {
        let (kind, cid) = match s {
            ExecutedState::Call(CallResult::Executed(ValueRef::Scalar(c))) => ("scalar", c),
            ExecutedState::Call(CallResult::Executed(ValueRef::Stream { cid, .. })) => ("stream", cid),
            ExecutedState::Call(CallResult::Failed(c)) => ("failed", c),
            _ => continue,
        };
        if let Some(agg) = d.cid_info.service_result_store.get(cid) {
            let f = d.cid_info.tetraplet_store.get(&agg.tetraplet_cid).map(|t| t.function_name.clone()).unwrap_or_default();
            let val = d.cid_info.value_store.get(&agg.value_cid).map(|r| r.get_value().to_string()).unwrap_or_default();
            v.push((i, kind.to_string(), f, agg.argument_hash.to_string(), val));
        }
    }
    v
}

pub fn find_call<'a>(ast: &'a Node, fname: &str) -> Option<&'a Node> {
    let mut v = vec![];
    ast.calls(&mut v);
    v.into_iter().find(|n| matches!(n, Node::Call { fname: f, .. } if f == fname))
}

impl Mon {
    pub fn new(prop: &str, npeers: usize, known: Rc<crate::known::Known>, ast: &Node) -> Mon {
        Mon {
            prop: prop.to_string(),
            viol: vec![],
            known_hits: vec![],
            dec: vec![],
            stop: false,
            capped: 0,
            nontrivial: BTreeSet::new(),
            max_id: vec![0; npeers],
            last_lcid: vec![0; npeers],
            issued: vec![BTreeMap::new(); npeers],
            gen_invalid: None,
            digest: String::new(),
            counters: BTreeMap::new(),
            known,
            analysis: Rc::new(crate::analysis::analyse(ast)),
            produced: BTreeMap::new(),
            rmodel: None,
            extra_taint: BTreeSet::new(),
            scratch: BTreeMap::new(),
        }
    }
    pub fn on(&self, p: &str) -> bool {
        self.prop == p || self.prop == "ALL"
    }
    pub fn count(&mut self, k: &str) {
        *self.counters.entry(k.to_string()).or_default() += 1;
    }
    pub fn report(&mut self, w: &World, idx: Option<usize>, prop: &str, tag: &str, detail: String) {
        if !self.on(prop) {
            return;
        }
        let (eid, taint) = match idx {
            Some(i) => (w.runs[i].eid, w.runs[i].taint.clone()),
            None => {
                // end-of-history oracle: tainted if any run was
                let mut t = BTreeSet::new();
                for r in &w.runs {
                    t.extend(r.taint.iter().cloned());
                }
                (w.events.last().map(|e| e.0).unwrap_or(0), t)
            }
        };
        let mut taint = taint;
        taint.extend(self.extra_taint.iter().cloned());
        if idx.is_none() {
            // end-of-history oracles run shadow merges; the call sites they hit classify too
            for p in &w.shadow_probes {
                match p.as_str() {
                    "remote_call_unresolved_args" => {
                        taint.insert("F2probe".into());
                    }
                    "fold_end_leftover_lore" => {
                        taint.insert("F1".into());
                    }
                    "stream_fold_unvisited_values" => {
                        taint.insert("F16".into());
                    }
                    "fold_window_unread_states" => {
                        taint.insert("F22".into());
                    }
                    _ => {}
                }
            }
        }
        // details may quote strings taken from corrupted data; keep the harness's own strings valid UTF-8
        let detail = String::from_utf8_lossy(detail.as_bytes()).into_owned();
        let tag = String::from_utf8_lossy(tag.as_bytes()).into_owned();
        let tag = tag.as_str();
        let known = self.known.classify(prop, tag, &taint, &detail);
        let v = Violation { prop: prop.into(), tag: tag.into(), detail, eid, known: known.clone() };
        if known.is_some() {
            self.known_hits.push(v);
        } else {
            self.viol.push(v);
            self.stop = true;
        }
    }
    pub fn decoded(&mut self, w: &World, idx: usize) -> Rc<InterpreterData> {
        while self.dec.len() <= idx {
            self.dec.push(None);
        }
        if let Some(d) = &self.dec[idx] {
            return d.clone();
        }
        let d = Rc::new(interp::dec(&w.runs[idx].out.data));
        self.dec[idx] = Some(d.clone());
        d
    }
    fn update_digest(&mut self, w: &World, idx: usize) {
        use sha2::{Digest, Sha256};
        let r = &w.runs[idx];
        let parts: Vec<String> = self.digest.split(':').map(|s| s.to_string()).collect();
        let (ds, dn, dn2) = if parts.len() == 3 { (parts[0].clone(), parts[1].clone(), parts[2].clone()) } else { (String::new(), String::new(), String::new()) };
        let mut h = Sha256::new();
        h.update(ds.as_bytes());
        let mut hn = Sha256::new();
        hn.update(dn.as_bytes());
        let mut hn2 = Sha256::new();
        hn2.update(dn2.as_bytes());
        let dj = if r.out.data.is_empty() {
            serde_json::Value::Null
        } else {
            match interp::decode(&r.out.data) {
                Ok(d) => interp::data_json(&d.data),
                Err(e) => serde_json::Value::String(format!("undecodable: {e}")),
            }
        };
        let msg = r.out.msg.clone();
        let line = format!("{}|{}|{}|{}|{:?}|{}|{:?}", r.eid, r.peer, r.out.code, msg, r.out.next, dj, r.out.reqs);
        if std::env::var("VERIF_DIGEST_DEBUG").is_ok() {
            eprintln!("DIGEST-LINE {line}");
        }
        h.update(line.as_bytes());
        // second digest with memory addresses in messages masked (strict:normalised)
        let linen = format!("{}|{}|{}|{}|{:?}|{}|{:?}", r.eid, r.peer, r.out.code, mask_addresses(&msg), r.out.next, dj, r.out.reqs);
        hn.update(linen.as_bytes());
        // third digest: additionally the message of CID-store verification failures (code 8) dropped
        let m2 = if r.out.code == CID_STORE_VERIFICATION_CODE { String::from("<cid store verification error>") } else { mask_addresses(&msg) };
        let linen2 = format!("{}|{}|{}|{}|{:?}|{}|{:?}", r.eid, r.peer, r.out.code, m2, r.out.next, dj, r.out.reqs);
        hn2.update(linen2.as_bytes());
        self.digest = format!("{:x}:{:x}:{:x}", h.finalize(), hn.finalize(), hn2.finalize());
    }

    pub fn after_run(&mut self, w: &mut World, idx: usize) {
        self.update_digest(w, idx);
        let (peer, code, stored) = {
            let r = &w.runs[idx];
            (r.peer, r.out.code, r.stored)
        };
        let cls = class(code);
        let honest = {
            let r = &w.runs[idx];
            !r.taint.contains("forged") && !r.taint.contains("rollback") && r.bogus.is_empty()
        };
        // generator-invalid scripts (shadowing etc.) are harness errors, never violations
        if cls == 'U' && *w.runs[idx].script == *w.script {
            let m = &w.runs[idx].out.msg;
            if m.contains("can't be shadowed") || m.contains("trying to shadow") || m.contains("multiple iterable values") || m.contains("new end block tries") {
                self.gen_invalid = Some(format!("code {code}: {m}"));
                self.stop = true;
                return;
            }
        }
        if w.runs[idx].out.panic.is_some() && w.runs[idx].taint.contains("torn") {
            // C01 quantifies over previous data "the interpreter itself produced": once the durable store was
            // damaged in place the peer is outside the property's domain. Observed and counted, never a violation.
            let p = w.runs[idx].out.panic.clone().unwrap();
            let loc = p.split(": ").next().unwrap_or("").to_string();
            self.count(&format!("observed_outside_domain:panic_after_torn_store@{}", loc.rsplit('/').next().unwrap_or("")));
            self.stop = true;
            return;
        }
        if w.runs[idx].out.panic.is_some() {
            let p = w.runs[idx].out.panic.clone().unwrap();
            let loc = p.split(": ").next().unwrap_or("").to_string();
            self.report(w, Some(idx), "C01", &format!("panic@{loc}"), p.clone());
            if !self.on("C01") {
                // a crash in a non-C01 check: not this property's business, but the history cannot go on meaningfully
                self.count("panic_in_other_profile");
            }
            return;
        }
        self.c02(w, idx);
        if self.on("C14") {
            crate::monitors2::c14(self, w, idx);
        }
        if self.on("C15") {
            crate::monitors2::c15(self, w, idx);
        }
        if self.on("C01") {
            crate::monitors2::c01_entry_points(self, w, idx);
            self.c01(w, idx);
        }
        if honest && self.on("C11") {
            crate::monitors3::c11(self, w, idx);
        }
        if honest && self.on("C13") {
            crate::monitors3::c13(self, w, idx);
        }
        if honest && (self.on("C16") || self.on("C17")) {
            crate::monitors3::c16_c17(self, w, idx);
        }
        if honest && self.on("C04") {
            self.c04(w, idx);
        }
        if self.on("C20") {
            crate::monitors2::c20(self, w, idx);
        }
        if self.on("C21") {
            crate::monitors2::c21(self, w, idx);
        }
        if self.on("C22") && !w.runs[idx].taint.contains("forged") {
            crate::monitors2::c22(self, w, idx);
        }
        if self.on("C06") && !w.runs[idx].bogus.is_empty() && !w.runs[idx].taint.contains("forged") {
            crate::monitors2::c06_bogus(self, w, idx);
        }
        if !stored {
            return;
        }
        if new_data_class(code) {
            if self.on("C10") {
                self.c10(w, idx);
            }
            if honest && matches!(cls, '0' | 'F') && self.on("C09") {
                self.c09(w, idx);
            }
            if honest && matches!(cls, '0' | 'C') && self.on("C07") {
                self.c07(w, idx);
            }
            if honest && self.on("C03") {
                self.c03(w, idx);
            }
            if honest && (self.on("C05") || self.on("C06")) {
                self.c05_c06(w, idx);
            }
            if honest && self.on("C19") {
                self.c19_run(w, idx);
            }
            if honest && self.on("C12") {
                crate::monitors2::c12(self, w, idx);
            }
        }
        let _ = peer;
    }

    // ---------------- C01 ----------------
    fn c01(&mut self, w: &mut World, idx: usize) {
        let r = &w.runs[idx];
        let input = r.script.len() + r.prev.len() + r.cur.len() + r.results.values().map(|x| x.1.len() + 16).sum::<usize>();
        let bound = 64 * input + (16 << 20);
        if r.out.peak_heap > bound {
            let d = format!("peak heap {} > bound {} for input size {}", r.out.peak_heap, bound, input);
            self.report(w, Some(idx), "C01", "heap", d);
        }
        let r = &w.runs[idx];
        if r.cur_forged {
            let key = format!("{}|{}", r.out.code, r.out.msg.chars().take(60).collect::<String>());
            self.nontrivial.insert(hash64(&key));
        }
    }

    // ---------------- C02 ----------------
    fn c02(&mut self, w: &mut World, idx: usize) {
        if !self.on("C02") {
            return;
        }
        let r = &w.runs[idx];
        let code = r.out.code;
        match class(code) {
            'P' | 'U' => {
                if r.out.data != **r.prev {
                    let d = format!("code {code} ({}) but returned data differs from previous data ({} vs {} bytes)", r.out.msg, r.out.data.len(), r.prev.len());
                    self.report(w, Some(idx), "C02", "prev-not-returned", d);
                    return;
                }
                if !r.out.next.is_empty() || !r.out.reqs.is_empty() || r.out.reqs_decode_err.is_some() {
                    let d = format!("code {code}: next peers {:?} / {} call requests on a failed run", r.out.next, r.out.reqs.len());
                    self.report(w, Some(idx), "C02", "failed-run-has-effects", d);
                    return;
                }
                self.nontrivial.insert(hash64(&format!("PU{code}{}", r.prev.len())));
            }
            '0' | 'C' | 'F' => {
                if r.out.data.is_empty() {
                    self.report(w, Some(idx), "C02", "empty-data", format!("code {code} returned empty data: {}", w.runs[idx].out.msg));
                    return;
                }
                let d = match interp::decode(&r.out.data) {
                    Ok(d) => d,
                    Err(e) => {
                        self.report(w, Some(idx), "C02", "undecodable-data", format!("code {code}: {e}"));
                        return;
                    }
                };
                if let Some(e) = &r.out.reqs_decode_err {
                    let e = e.clone();
                    self.report(w, Some(idx), "C02", "undecodable-requests", e);
                    return;
                }
                // everything executed in this run is in the data: new requests are pending states
                let me = &w.ids[r.peer];
                let mut pend: BTreeSet<u32> = BTreeSet::new();
                let mut own_done = 0usize;
                for s in d.data.trace.iter() {
                    match s {
                        ExecutedState::Call(CallResult::RequestSentBy(Sender::PeerIdWithCallId { peer_id, call_id })) if **peer_id == *me => {
                            pend.insert(*call_id);
                        }
                        _ => {}
                    }
                }
                for (pos, k, f, _, _) in call_states(&d.data) {
                    let _ = (pos, k, f);
                    own_done += 1;
                }
                let _ = own_done;
                for id in r.out.reqs.keys() {
                    if !pend.contains(id) {
                        let dd = format!("call request {id} issued in this run has no pending state in the returned data");
                        self.report(w, Some(idx), "C02", "request-not-in-data", dd);
                        return;
                    }
                }
                // every consumed result is recorded: its (function, argument hash) aggregate is in the data
                if class(code) != 'F' || r.bogus.is_empty() {
                    let prevd = interp::dec(&r.prev);
                    let mut prev_pending: BTreeSet<u32> = BTreeSet::new();
                    for s in prevd.trace.iter() {
                        if let ExecutedState::Call(CallResult::RequestSentBy(Sender::PeerIdWithCallId { peer_id, call_id })) = s {
                            if **peer_id == *me {
                                prev_pending.insert(*call_id);
                            }
                        }
                    }
                    let states = call_states(&d.data);
                    for id in &r.fed {
                        if !prev_pending.contains(id) || pend.contains(id) {
                            continue; // not consumed in this run (position not reached, or not pending) - C06's business
                        }
                        if let Some((rq, _res, _)) = w.peers[r.peer].consumed.get(id) {
                            let out_kind = find_call(&w.sc.ast, &rq.function).map(|n| matches!(n, Node::Call { out: crate::script::Out::None, .. })).unwrap_or(true);
                            if out_kind {
                                continue; // unused values are not stored with an aggregate
                            }
                            let n = states.iter().filter(|s| s.2 == rq.function && s.3 == rq.arg_hash).count();
                            if n == 0 {
                                let dd = format!("result fed under id {id} for {} was consumed but is not in the returned data", rq.function);
                                self.report(w, Some(idx), "C02", "executed-not-in-data", dd);
                                return;
                            }
                        }
                    }
                }
                self.nontrivial.insert(hash64(&format!("OK{code}{}", d.data.trace.len())));
            }
            _ => {
                let d = format!("code {code} outside the documented ranges: {}", r.out.msg);
                self.report(w, Some(idx), "C02", "code-out-of-range", d);
            }
        }
    }

    // ---------------- C04 ----------------
    fn c04(&mut self, w: &mut World, idx: usize) {
        let r = &w.runs[idx];
        let code = r.out.code;
        let m = &r.out.msg;
        let bad = match class(code) {
            'P' => !w.sc.profile.contains("limits") && !w.sc.profile.contains("version"),
            'U' => {
                !(m.contains("stream size goes over") || m.contains("fold state not found"))
            }
            _ => false,
        };
        if bad {
            let d = format!("peer {} eid {}: code {code}: {}", r.peer, r.eid, m.chars().take(600).collect::<String>());
            let tag = format!("code-{code}");
            self.report(w, Some(idx), "C04", &tag, d);
        } else if r.msg.is_some() && !r.prev.is_empty() {
            let key = format!("{}|{}|{}", r.prev.len(), r.cur.len(), r.peer);
            self.nontrivial.insert(hash64(&key));
        }
    }

    // ---------------- C10 ----------------
    fn c10(&mut self, w: &mut World, idx: usize) {
        let d = self.decoded(w, idx);
        if let Err(e) = check_range(&d.trace, 0, d.trace.len()) {
            let dd = format!("peer {} eid {}: {e}\ntrace: {}", w.runs[idx].peer, w.runs[idx].eid, interp::show_trace(&d));
            self.report(w, Some(idx), "C10", "malformed-trace", dd);
        } else if d.trace.iter().any(|s| matches!(s, ExecutedState::Par(_) | ExecutedState::Fold(_))) {
            let shape: String = d.trace.iter().map(|s| match s {
                ExecutedState::Par(p) => format!("P{}.{}", p.left_size, p.right_size),
                ExecutedState::Fold(f) => format!("F{}", f.lore.len()),
                ExecutedState::Ap(_) => "a".into(),
                ExecutedState::Canon(_) => "n".into(),
                ExecutedState::Call(_) => "c".into(),
            }).collect();
            self.nontrivial.insert(hash64(&shape));
        }
    }

    // ---------------- C09 ----------------
    fn c09(&mut self, w: &mut World, idx: usize) {
        let d = self.decoded(w, idx);
        let ko = knowledge(&d);
        let r = &w.runs[idx];
        let mut fail: Option<String> = None;
        let mut nontriv = false;
        let mut all_last_instr = true;
        for (nm, blob) in [("prev", &r.prev), ("cur", &r.cur)] {
            let din = interp::dec(blob);
            let kin = knowledge(&din);
            if !kin.is_empty() && nm == "cur" && !r.prev.is_empty() {
                nontriv = true;
            }
            for (c, n) in kin {
                if ko.get(&c).cloned().unwrap_or(0) < n {
                    // which call produced the lost result (calls in a stream-fold last instruction: finding F22)
                    let f = din
                        .cid_info
                        .service_result_store
                        .iter()
                        .find(|(cid, _)| cid.get_inner().as_ref() == &c[1..])
                        .and_then(|(_, agg)| din.cid_info.tetraplet_store.get(&agg.tetraplet_cid))
                        .map(|t| t.function_name.clone())
                        // a result nobody binds (`unused`) is recorded by its value's content id only and the value is
                        // not stored: look the content id up among the results the service stubs handed out
                        .or_else(|| {
                            w.peers.iter().flat_map(|p| p.consumed.values()).find_map(|(rq, res, _)| {
                                let cid = air_interpreter_cid::raw_value_to_json_cid::<air_interpreter_data::RawValue>(res.1.as_bytes());
                                if cid.get_inner().as_ref() == &c[1..] {
                                    Some(rq.function.clone())
                                } else {
                                    None
                                }
                            })
                        })
                        .unwrap_or_default();
                    if !self.analysis.calls.get(&f).map(|ci| ci.multi).unwrap_or(false) {
                        all_last_instr = false;
                    }
                    fail = Some(format!(
                        "peer {} eid {}: lost {c} x{n} from {nm} (result of `{f}`)\nprev: {}\ncur: {}\nout: {}",
                        r.peer,
                        r.eid,
                        interp::show_trace(&interp::dec(&r.prev)),
                        interp::show_trace(&interp::dec(&r.cur)),
                        interp::show_trace(&d)
                    ));
                }
            }
        }
        if let Some(f) = fail {
            let tag = if all_last_instr { "lost-result-last-instruction" } else { "lost-result" };
            self.report(w, Some(idx), "C09", tag, f);
        } else if nontriv {
            let key = format!("{:?}", ko.keys().collect::<Vec<_>>());
            self.nontrivial.insert(hash64(&key));
        }
    }

    // ---------------- C07 ----------------
    fn c07(&mut self, w: &mut World, idx: usize) {
        let d = self.decoded(w, idx);
        let (peer, c, a, b) = {
            let r = &w.runs[idx];
            (r.peer, Rc::new(r.out.data.clone()), r.prev.clone(), r.cur.clone())
        };
        let empty = BTreeMap::new();
        let lim = w.limits_of(peer);
        for (nm, cur) in [("c,b", b.as_slice()), ("c,a", a.as_slice()), ("c,c", c.as_slice()), ("c,0", &[][..])] {
            let o2 = w.shadow_ex(peer, &c, cur, &empty, Some(&lim), None, None);
            let t2 = interp::dec(&o2.data);
            if o2.panic.is_some() {
                continue;
            }
            if t2.trace != d.trace || !o2.reqs.is_empty() || !o2.next.is_empty() {
                let dd = format!(
                    "peer {peer} eid {} variant ({nm}): code {} reqs {} next {:?}\n c: {}\n 2: {}",
                    w.runs[idx].eid,
                    o2.code,
                    o2.reqs.len(),
                    o2.next,
                    interp::show_trace(&d),
                    interp::show_trace(&t2)
                );
                self.report(w, Some(idx), "C07", &format!("redelivery-{nm}"), dd);
                return;
            }
        }
        if !d.trace.is_empty() && !b.is_empty() && !a.is_empty() {
            self.nontrivial.insert(hash64(&interp::show_trace(&d)));
        }
    }

    // ---------------- C03 ----------------
    fn c03(&mut self, w: &mut World, idx: usize) {
        let raw = w.runs[idx].out.data.clone();
        let particle = w.runs[idx].particle.clone();
        let peer = w.runs[idx].peer;
        let dec = match interp::decode(&raw) {
            Ok(d) => d,
            Err(e) => {
                self.report(w, Some(idx), "C03", "undecodable", e);
                return;
            }
        };
        if dec.version != *air::interpreter_version() || dec.version < *air::min_supported_version() {
            let d = format!("stamped version {}", dec.version);
            self.report(w, Some(idx), "C03", "version", d);
            return;
        }
        let d = &dec.data;
        if let Err(e) = crate::monitors4::verify_stores(d) {
            self.report(w, Some(idx), "C03", "cid-store", e);
            return;
        }
        // independent walker: every CID referenced by the trace is in the right store; group per peer
        let mut per_peer: BTreeMap<String, Vec<Rc<str>>> = BTreeMap::new();
        for (i, s) in d.trace.iter().enumerate() {
            match s {
                ExecutedState::Call(CallResult::Executed(ValueRef::Scalar(c)))
                | ExecutedState::Call(CallResult::Executed(ValueRef::Stream { cid: c, .. }))
                | ExecutedState::Call(CallResult::Failed(c)) => {
                    let Some(agg) = d.cid_info.service_result_store.get(c) else {
                        self.report(w, Some(idx), "C03", "dangling-cid", format!("state {i}: service result {c:?} not in store"));
                        return;
                    };
                    let Some(t) = d.cid_info.tetraplet_store.get(&agg.tetraplet_cid) else {
                        self.report(w, Some(idx), "C03", "dangling-cid", format!("state {i}: tetraplet missing"));
                        return;
                    };
                    if d.cid_info.value_store.get(&agg.value_cid).is_none() {
                        self.report(w, Some(idx), "C03", "dangling-cid", format!("state {i}: value missing"));
                        return;
                    }
                    per_peer.entry(t.peer_pk.clone()).or_default().push(c.get_inner());
                }
                ExecutedState::Canon(CanonResult::Executed(c)) => {
                    let Some(agg) = d.cid_info.canon_result_store.get(c) else {
                        self.report(w, Some(idx), "C03", "dangling-cid", format!("state {i}: canon result not in store"));
                        return;
                    };
                    let Some(t) = d.cid_info.tetraplet_store.get(&agg.tetraplet) else {
                        self.report(w, Some(idx), "C03", "dangling-cid", format!("state {i}: canon tetraplet missing"));
                        return;
                    };
                    for e in &agg.values {
                        if d.cid_info.canon_element_store.get(e).is_none() {
                            self.report(w, Some(idx), "C03", "dangling-cid", format!("state {i}: canon element missing"));
                            return;
                        }
                    }
                    per_peer.entry(t.peer_pk.clone()).or_default().push(c.get_inner());
                }
                _ => {}
            }
        }
        // signatures: every peer with results has a signature that verifies over its sorted multiset
        let mut sigs: BTreeMap<String, (air_interpreter_signatures::PublicKey, air_interpreter_signatures::Signature)> = BTreeMap::new();
        for (pk, sig) in d.signatures.iter() {
            if let Ok(id) = pk.to_peer_id() {
                sigs.insert(id.to_string(), (pk.clone(), sig.clone()));
            }
        }
        for (p, cids) in per_peer.iter_mut() {
            cids.sort_unstable();
            match sigs.get(p) {
                None => {
                    self.report(w, Some(idx), "C03", "missing-signature", format!("peer {p} has {} results but no signature", cids.len()));
                    return;
                }
                Some((pk, sig)) => {
                    if let Err(e) = pk.verify(cids, &particle, sig) {
                        let dd = format!("signature of {p} does not verify over its {} results: {e}", cids.len());
                        self.report(w, Some(idx), "C03", "bad-signature", dd);
                        return;
                    }
                }
            }
        }
        // shadow acceptance: a fresh observer and one other peer with its real previous data
        let empty = BTreeMap::new();
        let obs = w.obs();
        let o = w.shadow(obs, &[], &raw, &empty);
        if class(o.code) == 'P' || o.panic.is_some() {
            let dd = format!("fresh observer rejects data produced by peer {peer} (eid {}): code {} {}", w.runs[idx].eid, o.code, o.msg.chars().take(400).collect::<String>());
            self.report(w, Some(idx), "C03", "observer-rejects", dd);
            return;
        }
        let other = (peer + 1 + (idx % w.sc.np.max(1))) % w.sc.np;
        if other != peer {
            let prev = w.peers[other].store.clone();
            let o = w.shadow(other, &prev, &raw, &empty);
            if class(o.code) == 'P' || o.panic.is_some() {
                let dd = format!("peer {other} (with its own previous data) rejects data produced by peer {peer} (eid {}): code {} {}", w.runs[idx].eid, o.code, o.msg.chars().take(400).collect::<String>());
                self.report(w, Some(idx), "C03", "peer-rejects", dd);
                return;
            }
        }
        if per_peer.len() >= 2 {
            let key = format!("{:?}", per_peer.iter().map(|(k, v)| (k.len(), v.len())).collect::<Vec<_>>());
            self.nontrivial.insert(hash64(&format!("{key}{}", d.trace.len())));
        }
    }

    // ---------------- C05 / C06 ----------------
    fn c05_c06(&mut self, w: &mut World, idx: usize) {
        let d = self.decoded(w, idx);
        let peer = w.runs[idx].peer;
        let eid = w.runs[idx].eid;
        // C06 freshness
        let reqs: Vec<(u32, crate::interp::Req)> = w.runs[idx].out.reqs.iter().map(|(k, v)| (*k, v.clone())).collect();
        for (id, _) in &reqs {
            if *id <= self.max_id[peer] && self.on("C06") {
                let dd = format!("peer {peer} eid {eid}: request id {id} <= an id handed out before ({})", self.max_id[peer]);
                self.report(w, Some(idx), "C06", "id-not-fresh", dd);
                return;
            }
        }
        if let Some(mx) = reqs.iter().map(|x| x.0).max() {
            self.max_id[peer] = self.max_id[peer].max(mx);
            if reqs.len() >= 2 {
                self.nontrivial.insert(hash64(&format!("ids{peer}{mx}{}", reqs.len())));
            }
        }
        if (d.last_call_request_id < self.last_lcid[peer] || d.last_call_request_id < self.max_id[peer]) && self.on("C06") {
            let dd = format!("peer {peer} eid {eid}: last_call_request_id {} went below {} / {}", d.last_call_request_id, self.last_lcid[peer], self.max_id[peer]);
            self.report(w, Some(idx), "C06", "lcid-regressed", dd);
            return;
        }
        self.last_lcid[peer] = d.last_call_request_id;
        // C05: no instance requested twice. Two instances can share a key (iterations over a collection holding
        // equal values); an older request under the same key belongs to another instance iff it is still pending
        // in the returned data or its result was consumed.
        let me = w.ids[peer].clone();
        let mut pend: BTreeSet<u32> = BTreeSet::new();
        for s in d.trace.iter() {
            if let ExecutedState::Call(CallResult::RequestSentBy(Sender::PeerIdWithCallId { peer_id, call_id })) = s {
                if **peer_id == me {
                    pend.insert(*call_id);
                }
            }
        }
        for (id, rq) in &reqs {
            let k = inst_key(rq);
            if self.analysis.calls.get(&rq.function).map(|c| c.multi).unwrap_or(false) {
                continue; // the last instruction of a stream fold runs once per generation
            }
            // two different call instances of one peer under one id: the host answers by id, so one of them can never
            // get its own result (it is lost or lands at the other call)
            if let Some((other_key, oeid)) = self.issued[peer].iter().find_map(|(k2, v)| if *k2 != k { v.iter().find(|(i, _)| i == id).map(|(_, e)| (k2.clone(), *e)) } else { None }) {
                let dd = format!("peer {peer} eid {eid}: call instance {k} is requested under id {id}, which call instance {other_key} already got at eid {oeid}");
                self.report(w, Some(idx), "C05", "id-shared-by-two-calls", dd);
                return;
            }
            let olds = self.issued[peer].get(&k).cloned().unwrap_or_default();
            for (old, oeid) in olds {
                if pend.contains(&old) || w.peers[peer].consumed.contains_key(&old) {
                    continue;
                }
                let dd = format!("peer {peer} eid {eid}: call instance {k} requested again under id {id} (first under id {old} at eid {oeid})");
                self.report(w, Some(idx), "C05", "requested-twice", dd);
                return;
            }
            self.issued[peer].entry(k).or_default().push((*id, eid));
        }
        // C05/C06: every result consumed so far is recorded exactly once, at the call that requested it
        let states = call_states(&d);
        let consumed: Vec<(u32, crate::interp::Req, SvcRes, usize)> =
            w.peers[peer].consumed.iter().map(|(k, v)| (*k, v.0.clone(), v.1.clone(), v.2)).collect();
        let same_key_consumed = |rq: &crate::interp::Req| -> usize {
            w.peers[peer].consumed.iter().filter(|(k, v)| !pend.contains(k) && v.0.function == rq.function && v.0.arg_hash == rq.arg_hash).count()
        };
        let expected_counts: Vec<usize> = consumed.iter().map(|c| same_key_consumed(&c.1)).collect();
        for ((id, rq, res, ridx), expected) in consumed.into_iter().zip(expected_counts) {
            if pend.contains(&id) {
                // fed but the call's position was not reached in that run: reported as 30000 (checked below)
                continue;
            }
            let unused = find_call(&w.sc.ast, &rq.function).map(|n| matches!(n, Node::Call { out: crate::script::Out::None, .. })).unwrap_or(true);
            if unused || self.analysis.calls.get(&rq.function).map(|c| c.multi).unwrap_or(false) {
                continue;
            }
            let matching: Vec<_> = states.iter().filter(|s| s.2 == rq.function && s.3 == rq.arg_hash).collect();
            if matching.len() != 1 && matching.len() == expected && expected > 1 {
                // equal values in the iterated collection: as many equal instances as consumed results
                continue;
            }
            if matching.len() != 1 {
                // was the result dropped because the run that received it ended with an error that returned prev?
                let rc = class(w.runs[ridx].out.code);
                if matching.is_empty() && (rc == 'P' || rc == 'U' || rc == 'F') {
                    continue;
                }
                let dd = format!(
                    "peer {peer} eid {eid}: result fed under id {id} for {} is recorded {} times in the peer's data\ntrace: {}",
                    rq.function,
                    matching.len(),
                    interp::show_trace(&d)
                );
                let p = if matching.is_empty() { "C05" } else { "C05" };
                self.report(w, Some(idx), p, if matching.is_empty() { "result-lost" } else { "result-duplicated" }, dd);
                return;
            }
            let st = matching[0];
            let expect_val = if res.0 == 0 {
                serde_json::from_str::<serde_json::Value>(&res.1).ok().map(|v| v.to_string())
            } else {
                None
            };
            if let Some(ev) = expect_val {
                let got: Option<serde_json::Value> = serde_json::from_str(&st.4).ok();
                if got.map(|g| g.to_string()) != Some(ev.clone()) || st.1 == "failed" {
                    let dd = format!("peer {peer} eid {eid}: id {id} ({}) expected value {ev} but the call holds {} ({})", rq.function, st.4, st.1);
                    self.report(w, Some(idx), "C06", "result-at-wrong-call", dd);
                    return;
                }
            } else if res.0 != 0 && st.1 != "failed" {
                let dd = format!("peer {peer} eid {eid}: id {id} ({}) was a service error but the call holds {}", rq.function, st.1);
                self.report(w, Some(idx), "C06", "result-at-wrong-call", dd);
                return;
            }
        }
        if self.on("C05") && !w.peers[peer].consumed.is_empty() && w.peers[peer].runs.len() >= 3 {
            self.nontrivial.insert(hash64(&format!("{peer}{}{}", w.peers[peer].consumed.len(), d.trace.len())));
        }
    }

    // ---------------- C19 (per run) ----------------
    fn c19_run(&mut self, w: &mut World, idx: usize) {
        let d = self.decoded(w, idx);
        let r = &w.runs[idx];
        let me = w.ids[r.peer].clone();
        let mut fail: Option<(String, String)> = None;
        for (id, rq) in &r.out.reqs {
            if let Some(Node::Call { peer, args, .. }) = find_call(&w.sc.ast, &rq.function) {
                let target: Option<String> = match peer {
                    PeerRef::Lit(i) => Some(w.ids[*i].clone()),
                    PeerRef::Init => Some(w.ids[0].clone()),
                    PeerRef::Var { name, lens } => match args.first() {
                        Some(crate::script::Arg::Var { name: n2, lens: l2 }) if n2 == name && l2 == lens => rq.args.first().and_then(|v| v.as_str()).map(|s| s.to_string()),
                        _ => None,
                    },
                };
                if let Some(t) = target {
                    if t != me {
                        fail = Some(("foreign-call".into(), format!("peer {} issued request {id} for {} addressed to {t}", r.peer, rq.function)));
                    }
                }
            }
        }
        if r.out.next.contains(&me) {
            fail = Some(("next-self".into(), format!("peer {} lists itself among next peers", r.peer)));
        }
        if r.out.next_has_dup {
            fail = Some(("next-dup".into(), format!("peer {} has duplicates among next peers", r.peer)));
        }
        for (n, det) in &r.out.probes {
            if (n == "remote_call" || n == "unseen_canon") && !r.out.next.contains(det) {
                fail = Some(("marked-not-forwarded".into(), format!("peer {} marked a {n} as sent to {det} but next peers are {:?}", r.peer, r.out.next)));
            }
        }
        // new executed canon results are attributed to the current peer
        let kin: BTreeSet<String> = knowledge(&interp::dec(&r.prev)).into_keys().chain(knowledge(&interp::dec(&r.cur)).into_keys()).collect();
        for (pos, st) in d.trace.iter().enumerate() {
            if let ExecutedState::Canon(CanonResult::Executed(c)) = st {
                if kin.contains(&format!("C{}", c.get_inner())) {
                    continue;
                }
                if let Some(agg) = d.cid_info.canon_result_store.get(c) {
                    if let Some(t) = d.cid_info.tetraplet_store.get(&agg.tetraplet) {
                        if t.peer_pk != me {
                            fail = Some(("foreign-canon".into(), format!("peer {} executed canon at {pos} attributed to {}", r.peer, t.peer_pk)));
                        }
                    }
                }
            }
        }
        // new executed / failed call results (not known from the inputs) are results of calls addressed to the current peer
        for (pos, st) in d.trace.iter().enumerate() {
            let (key, cid) = match st {
                ExecutedState::Call(CallResult::Executed(ValueRef::Scalar(c))) => (format!("S{}", c.get_inner()), c),
                ExecutedState::Call(CallResult::Executed(ValueRef::Stream { cid, .. })) => (format!("S{}", cid.get_inner()), cid),
                ExecutedState::Call(CallResult::Failed(c)) => (format!("F{}", c.get_inner()), c),
                _ => continue,
            };
            if kin.contains(&key) {
                continue;
            }
            if let Some(agg) = d.cid_info.service_result_store.get(cid) {
                if let Some(t) = d.cid_info.tetraplet_store.get(&agg.tetraplet_cid) {
                    if t.peer_pk != me {
                        fail = Some(("foreign-call-executed".into(), format!("peer {} recorded a new call result at {pos} for a call addressed to {} ({})", r.peer, t.peer_pk, t.function_name)));
                    }
                }
            }
        }
        if let Some((t, dd)) = fail {
            self.report(w, Some(idx), "C19", &t, dd);
        } else if !w.runs[idx].out.next.is_empty() || !w.runs[idx].out.reqs.is_empty() {
            let r = &w.runs[idx];
            self.nontrivial.insert(hash64(&format!("{}{:?}{:?}", r.peer, r.out.next, r.out.reqs.keys().collect::<Vec<_>>())));
        }
    }

    // ---------------- end of history ----------------
    pub fn at_end(&mut self, w: &mut World, rng: &mut crate::rngx::Rng) {
        if self.stop || self.gen_invalid.is_some() {
            return;
        }
        if self.on("C19") && w.quiescent() {
            self.c19_quiescence(w);
        }
        if self.on("C08") {
            crate::monitors2::c08(self, w, rng);
        }
        if self.on("C18") {
            crate::monitors3::c18(self, w);
        }
        if self.on("C13") {
            crate::monitors3::c13_end(self, w);
            if w.sc.script.contains("$big") {
                crate::monitors4::c13_limit(self, w);
            }
        }
    }

    fn c19_quiescence(&mut self, w: &mut World) {
        // only in lossless honest profiles
        let lossless = !["drop", "crash_volatile", "partition_lossy", "rollback"].iter().any(|k| w.sc.fault_cfg.get(*k).cloned().unwrap_or(0) > 0);
        if !lossless || w.sc.profile != "honest" {
            return;
        }
        if w.runs.iter().any(|r| !matches!(class(r.out.code), '0')) {
            return; // catchable top-level error or unprocessed results: the particle legitimately stops
        }
        // merge all peers' final data at the observer
        let obs = w.obs();
        let mut acc: Vec<u8> = vec![];
        let empty = BTreeMap::new();
        for p in 0..w.sc.np {
            let blob = w.peers[p].store.clone();
            if blob.is_empty() {
                continue;
            }
            let o = w.shadow(obs, &acc, &blob, &empty);
            if !new_data_class(o.code) {
                return; // C04/C08's business
            }
            acc = o.data;
        }
        let d = interp::dec(&acc);
        let obs_id = w.ids[obs].clone();
        // peers at which the F2 call site (remote call marked as sent with unresolved arguments) was hit
        let f2_peers: BTreeSet<String> = w
            .runs
            .iter()
            .filter(|r| r.out.probes.iter().any(|p| p.0 == "remote_call_unresolved_args"))
            .map(|r| w.ids[r.peer].clone())
            .collect();
        // positions inside a fold iteration's after-`next` window: in generated scripts only the last instruction of a
        // stream fold puts call states there (finding F22: it runs once per generation group, and groupings differ)
        let mut after_ranges: Vec<(usize, usize)> = vec![];
        for s in d.trace.iter() {
            if let ExecutedState::Fold(f) = s {
                for l in &f.lore {
                    if let Some(a) = l.subtraces_desc.get(1) {
                        let b: usize = a.begin_pos.into();
                        after_ranges.push((b, b + a.subtrace_len as usize));
                    }
                }
            }
        }
        let has_last_instr_calls = self.analysis.calls.values().any(|c| c.multi);
        for (i, s) in d.trace.iter().enumerate() {
            let mut f2 = false;
            let stuck = match s {
                ExecutedState::Call(CallResult::RequestSentBy(Sender::PeerId(p))) if **p != obs_id => {
                    f2 = f2_peers.contains(&**p);
                    Some(format!("call sent by {p}"))
                }
                ExecutedState::Call(CallResult::RequestSentBy(Sender::PeerIdWithCallId { peer_id, call_id })) if **peer_id != obs_id => Some(format!("pending ({peer_id},{call_id})")),
                ExecutedState::Canon(CanonResult::RequestSentBy(p)) if **p != obs_id => Some(format!("canon sent by {p}")),
                _ => None,
            };
            if let Some(what) = stuck {
                let dd = format!("at quiescence (all messages and results delivered) state {i} is still {what}\nmerged: {}", interp::show_trace(&d));
                let mut t = BTreeSet::new();
                if f2 {
                    t.insert("F2site".to_string());
                }
                for r in &w.runs {
                    t.extend(r.taint.iter().cloned());
                }
                let in_after = has_last_instr_calls && after_ranges.iter().any(|(a, b)| i >= *a && i < *b);
                let tag = if in_after { "stuck-at-quiescence-last-instruction" } else { "stuck-at-quiescence" };
                let dd = if in_after { format!("{dd}\n(state {i} sits in a stream fold's after-window: a call of the fold's last instruction)") } else { dd };
                let known = self.known.classify("C19", tag, &t, &dd);
                let v = Violation { prop: "C19".into(), tag: tag.into(), detail: dd, eid: w.events.last().map(|e| e.0).unwrap_or(0), known: known.clone() };
                if known.is_some() {
                    self.known_hits.push(v);
                } else {
                    self.viol.push(v);
                }
                return;
            }
        }
        self.count("quiescent_histories");
    }
}
