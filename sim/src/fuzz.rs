//! Input-level faults for C01 that a malicious participant controls besides the data: the script that
//! travels with the particle (token-level mutations, deep nesting) and the bytes a host hands in as call results.
use crate::rngx::Rng;

fn tokens(s: &str) -> Vec<String> {
    let mut out = vec![];
    let mut cur = String::new();
    let mut in_str = false;
    for ch in s.chars() {
        if in_str {
            cur.push(ch);
            if ch == '"' {
                in_str = false;
                out.push(std::mem::take(&mut cur));
            }
            continue;
        }
        match ch {
            '"' => {
                if !cur.is_empty() {
                    out.push(std::mem::take(&mut cur));
                }
                cur.push(ch);
                in_str = true;
            }
            '(' | ')' | '[' | ']' => {
                if !cur.is_empty() {
                    out.push(std::mem::take(&mut cur));
                }
                out.push(ch.to_string());
            }
            c if c.is_whitespace() => {
                if !cur.is_empty() {
                    out.push(std::mem::take(&mut cur));
                }
            }
            c => cur.push(c),
        }
    }
    if !cur.is_empty() {
        out.push(cur);
    }
    out
}
fn join(t: &[String]) -> String {
    let mut s = String::new();
    for (i, x) in t.iter().enumerate() {
        if i > 0 && x != ")" && x != "]" && t[i - 1] != "(" && t[i - 1] != "[" {
            s.push(' ');
        }
        s.push_str(x);
    }
    s
}

const KEYWORDS: &[&str] = &["seq", "par", "xor", "call", "ap", "canon", "fold", "next", "new", "match", "mismatch", "fail", "null", "never"];
const ODD: &[&str] = &["%last_error%", ":error:", "%init_peer_id%", "%ttl%", "$s", "#c", "#%m", "%m", "x.$.a!", "x.$.[0]", "[]", "-1", "18446744073709551616", "\"\"", "x.length", "\u{0}", "é", "(", ")"];

pub fn mutate_script(rng: &mut Rng, script: &str) -> String {
    let mut t = tokens(script);
    let kind = rng.below(10);
    if t.is_empty() {
        return "(null)".into();
    }
    match kind {
        0 => {
            let i = rng.below(t.len());
            t.remove(i);
        }
        1 => {
            let i = rng.below(t.len());
            let x = t[i].clone();
            t.insert(i, x);
        }
        2 => {
            let i = rng.below(t.len());
            let j = rng.below(t.len());
            t.swap(i, j);
        }
        3 => {
            // replace an instruction keyword by another one
            let ks: Vec<usize> = (0..t.len()).filter(|i| KEYWORDS.contains(&t[*i].as_str())).collect();
            if !ks.is_empty() {
                let i = ks[rng.below(ks.len())];
                t[i] = KEYWORDS[rng.below(KEYWORDS.len())].to_string();
            }
        }
        4 => {
            let i = rng.below(t.len());
            t[i] = ODD[rng.below(ODD.len())].to_string();
        }
        5 => {
            let k = rng.below(t.len());
            t.truncate(k);
        }
        6 | 7 => {
            // deep nesting around the whole script
            let depth = [10usize, 100, 500, 1500, 3000][rng.below(5)];
            let (open, close) = match rng.below(3) {
                0 => ("(seq ", " (null))"),
                1 => ("(xor ", " (null))"),
                _ => ("(par (null) ", ")"),
            };
            let mut s = String::with_capacity(script.len() + depth * 16);
            for _ in 0..depth {
                s.push_str(open);
            }
            s.push_str(script);
            for _ in 0..depth {
                s.push_str(close);
            }
            return s;
        }
        8 => {
            // rename a variable everywhere but at its definition (dangling uses) or shadow an iterator by its iterable
            let vars: Vec<usize> = (0..t.len()).filter(|i| t[*i].starts_with('v') || t[*i].starts_with("it")).collect();
            if vars.len() >= 2 {
                let a = vars[rng.below(vars.len())];
                let b = vars[rng.below(vars.len())];
                t[a] = t[b].clone();
            }
        }
        _ => {
            let i = rng.below(t.len());
            t.insert(i, "(fold x x (null))".into());
        }
    }
    join(&t)
}

pub fn random_call_results(rng: &mut Rng) -> Vec<u8> {
    let n = [0usize, 1, 2, 7, 64, 300][rng.below(6)];
    let mut v: Vec<u8> = (0..n).map(|_| (rng.u32() & 0xff) as u8).collect();
    match rng.below(5) {
        0 => {}
        1 => {
            // a valid encoding of an empty map with a foreign codec tag in front
            v = crate::interp::encode_results(&Default::default());
            if !v.is_empty() {
                v[0] ^= 0x55;
            }
        }
        2 => {
            // valid encoding, truncated
            let mut m = std::collections::BTreeMap::new();
            m.insert("1".to_string(), (0, "{\"a\":1}".to_string()));
            m.insert("x".to_string(), (7, "not json".to_string()));
            v = crate::interp::encode_results(&m);
            let k = rng.below(v.len().max(1));
            v.truncate(k);
        }
        3 => {
            // non-numeric and huge keys, huge ret codes
            let mut m = std::collections::BTreeMap::new();
            m.insert("abc".to_string(), (i32::MAX, "\"x\"".to_string()));
            m.insert("4294967296".to_string(), (i32::MIN, "1".to_string()));
            m.insert("-1".to_string(), (0, "null".to_string()));
            v = crate::interp::encode_results(&m);
        }
        _ => {
            // msgpack claiming a huge map / array length
            v = vec![0xdf, 0xff, 0xff, 0xff, 0xff, 0xa1, 0x31];
        }
    }
    v
}
