#!/bin/bash
# tools/confirm_seeded.sh <worktree> <seeded-dir> <demo-cmd>
# Confirms in a scratch worktree (never /repo): (1) patch applies and compiles, (2) the workspace tests that pass
# on the unmodified tree still pass with the patch (failing-test name sets compared), (3) the demo passes without
# the patch and fails with it. Writes <seeded-dir>/confirm.log and prints a one-line verdict.
set -u
WT="$1"; SD="$2"; DEMO="$3"
LOG="$SD/confirm.log"; : > "$LOG"
cd "$WT" || exit 2
git checkout -q -- . 2>/dev/null
names() { grep -E "^test .* \.\.\. FAILED" | sed 's/ \.\.\. FAILED//' | sort -u; }
DEMOFILE="${4:-}"   # optional: demo source inside the workspace; hidden while the existing suite runs
run_ws() {
  if [ -n "$DEMOFILE" ] && [ -f "$DEMOFILE" ]; then mv "$DEMOFILE" /tmp/confirm_demofile.$$; fi
  cargo test --workspace --no-fail-fast --offline 2>&1
  if [ -n "$DEMOFILE" ] && [ -f /tmp/confirm_demofile.$$ ]; then mv /tmp/confirm_demofile.$$ "$DEMOFILE"; fi
}
echo "== unmodified workspace tests" >> "$LOG"
run_ws > /tmp/confirm_base.$$ ; names < /tmp/confirm_base.$$ > /tmp/confirm_base_failed.$$
grep -E "^test result" /tmp/confirm_base.$$ | awk '{p+=$4; f+=$6} END{print "passed",p,"failed",f}' >> "$LOG"
echo "== demo without patch (must pass)" >> "$LOG"
( eval "$DEMO" ) > /tmp/confirm_demo0.$$ 2>&1; d0=$?
tail -5 /tmp/confirm_demo0.$$ >> "$LOG"
git apply "$SD/patch.diff" || { echo "VERDICT patch does not apply" | tee -a "$LOG"; exit 1; }
echo "== patched workspace tests" >> "$LOG"
run_ws > /tmp/confirm_patch.$$ ; names < /tmp/confirm_patch.$$ > /tmp/confirm_patch_failed.$$
grep -E "^test result" /tmp/confirm_patch.$$ | awk '{p+=$4; f+=$6} END{print "passed",p,"failed",f}' >> "$LOG"
compile_err=$(grep -c "^error" /tmp/confirm_patch.$$)
newfail=$(comm -13 /tmp/confirm_base_failed.$$ /tmp/confirm_patch_failed.$$ | grep -v demo | wc -l)
comm -13 /tmp/confirm_base_failed.$$ /tmp/confirm_patch_failed.$$ >> "$LOG"
echo "== demo with patch (must fail)" >> "$LOG"
( eval "$DEMO" ) > /tmp/confirm_demo1.$$ 2>&1; d1=$?
tail -8 /tmp/confirm_demo1.$$ >> "$LOG"
git apply -R "$SD/patch.diff"
git checkout -q -- . 2>/dev/null
rm -f /tmp/confirm_*.$$
echo "VERDICT demo_without=$d0 demo_with=$d1 newly_failing_existing_tests=$newfail" | tee -a "$LOG"
if [ "$d0" = 0 ] && [ "$d1" != 0 ] && [ "$newfail" = 0 ]; then echo CONFIRMED | tee -a "$LOG"; exit 0; fi
echo NOT-CONFIRMED | tee -a "$LOG"; exit 1
