#!/bin/bash
# tools/thorough_sweep.sh [props...] - runs the thorough tier of every check once (default seed), prints what needs attention
cd "$(dirname "$0")/.."
props="${@:-C01 C02 C03 C04 C05 C06 C07 C08 C09 C10 C11 C12 C13 C14 C15 C16 C17 C18 C19 C20 C21 C22}"
for p in $props; do
  out=$(./check $p thorough 2>&1); rc=$?
  echo "thorough $p rc=$rc $(echo "$out" | grep -E "thorough:" | cut -c1-200)"
  if [ $rc -ne 0 ]; then echo "$out" | grep -v "^KNOWN" | cut -c1-1500 | tail -25; mkdir -p sweep_replays; cp replays/$p-* sweep_replays/ 2>/dev/null; fi
done
