#!/bin/bash
# tools/sweep.sh <first-seed> <last-seed> [props...]  - runs quick checks over disjoint seeds, prints only what needs attention
cd "$(dirname "$0")/.."
a=$1; b=$2; shift 2
props="${@:-C01 C02 C03 C04 C05 C06 C07 C08 C09 C10 C11 C12 C13 C14 C15 C16 C17 C18 C19 C20 C21 C22}"
for s in $(seq $a $b); do
  for p in $props; do
    out=$(VERIF_SEED=$s ./check $p quick 2>&1); rc=$?
    echo "seed $s $p rc=$rc $(echo "$out" | grep -E "quick:" | cut -c1-160)"
    if [ $rc -ne 0 ]; then echo "$out" | grep -v "^KNOWN" | cut -c1-1500 | tail -25; mkdir -p sweep_replays; cp replays/$p-$s-* sweep_replays/ 2>/dev/null; fi
  done
done
