#!/usr/bin/env python3
"""Writes /verif/MANIFEST.json from the table below (kept here so that the manifest stays consistent)."""
import json, subprocess

CLAIMED = {
    # id: (level, technique, text, note)
    "C02": ("exploration", "deterministic simulation: outcome-class monitor on every interpreter invocation of honest, lossy, garbage-service, bogus-id, corrupting and Byzantine histories",
            "Every run of every sampled history is classified by result code; P/U codes must return the previous data byte-for-byte with no next peers and no requests, 0/C/F codes must return decodable data that contains every request issued and every result consumed in that run.",
            "Sampled histories only. Host/store/network/services are stubs modelled on air/README.md and avm/server."),
    "C03": ("exploration", "deterministic simulation: independent CID/signature walker plus shadow acceptance runs on every produced data",
            "After every data-producing run of honest histories the output is decoded, its CID stores verified, every referenced CID resolved by an independent walker, every peer's signature verified over its result multiset with the particle id as salt, and a fresh observer and another participant (with its own previous data) must accept it.",
            "ed25519/borsh framing of the signatures crate is trusted for signature verification; sampled histories only."),
    "C04": ("exploration", "deterministic simulation: seeded schedules with duplication, misrouting, partitions, stalls, crashes; no consistency error code may ever appear",
            "All honest histories under all schedulers and lossless/lossy fault mixes: no run may return a preparation code or an uncatchable code of the data-consistency kinds.",
            "Generator emits only scripts inside documented AIR semantics (rules U/D1/R1/R1'/E1 in DESIGN.md); sampled, not enumerated."),
    "C05": ("exploration", "deterministic simulation: cumulative per-peer exactly-once oracle over call instances under heavy duplication, stale redelivery and durable crashes",
            "Per peer and particle: no call instance (unique function name + iterator arguments) is ever requested twice, and every consumed result is found exactly once at its call in all later data of the peer.",
            "Instance identity relies on generator rule U (unique function names, enclosing iterators passed as arguments)."),
    "C06": ("fault_enumeration", "deterministic simulation with injected bogus call-result ids (unknown, consumed, foreign) compared against a twin run without them",
            "Ids handed out are strictly increasing per (peer, particle); a fed result is recorded at the call whose request carried that id; bogus ids yield 30000 and leave trace/requests/next peers identical to the twin run.",
            "The 30000 rule is evaluated only where the twin run otherwise succeeds (DESIGN.md 7)."),
    "C07": ("exploration", "deterministic simulation: four shadow re-deliveries (b, a, c, empty) after every non-failing run",
            "For every non-failing run of every honest history, re-running with prev=c and current in {b,a,c,empty} must give exactly c's trace, no requests and no next peers.",
            "Shadow runs use the same peer keys and limits; sampled histories only."),
    "C09": ("exploration", "deterministic simulation: knowledge-inclusion monitor (content-id multisets) on every non-failing run",
            "For every run with code 0 or 30000 in honest histories, the multiset of executed/failed call and executed canon content ids of the output contains those of the previous and of the current data.",
            "Known finding F1 (fold end drops unvisited lore) is classified by its probe and reported as KNOWN-FINDING."),
    "C10": ("exploration", "deterministic simulation: recursive structural walker over every produced trace",
            "Every produced trace is walked: par sizes fit and nest, fold iteration descriptors tile the range without gap/overlap, each iteration points at an earlier stream value entry, no placeholder generation remains.",
            "Sampled histories only."),
    "C19": ("exploration", "deterministic simulation: per-run addressing monitor plus drain-to-quiescence liveness check once faults stop",
            "Per run: requests only for calls addressed to the current peer, new canon results attributed to it, next peers without self/duplicates and covering every peer marked by the remote-call/unseen-canon sites. At quiescence of lossless histories no state remains marked as sent but unexecuted.",
            "Known finding F2 (remote call marked sent with unresolved arguments) is classified by its probe and sender."),
    "C08": ("exploration", "deterministic simulation: end-of-history observer merges of all peers' final and intermediate data in seeded permutations, a two-level grouping and at a participant",
            "For every honest history, merging the same set of data in all orders (n! for n <= 3 blobs, and for n = 4 in 40% of the histories; otherwise 3 orders), in a two-observer grouping and at a participating peer must give the same content-id knowledge (and identical traces modulo senders for stream-free scripts); any merge failure is a violation.",
            "Exhaustive over orders for small sets only; known findings F1, F17, F22 are classified by their probes."),
    "C12": ("exploration", "deterministic simulation: generation-order monitor over consecutive data of each peer, per single-instance stream",
            "For every run of honest histories and every stream with a single instance: call-produced values keep their relative generation order, previous-data values precede values that came only with the current data, which precede values produced in the run.",
            "Values are identified by content id via rule U; new-scoped streams under folds and ap-produced values are not compared."),
    "C20": ("exploration", "deterministic simulation with the hash seed as a scheduled input: every history is executed under two families of HashMap keys (LD_PRELOAD getrandom seam) in separate processes and every invocation is re-executed in-process",
            "Per-history digests of all decoded outcomes (code, message, data, requests, next peers) must agree between two hash-seed families, and every run re-executed in the same process (fresh per-map keys) must give an identical decoded outcome.",
            "Known findings F12 (memory addresses in rkyv error messages) and F13 (which CID-store error is named) are classified and reported as KNOWN-FINDING."),
    "C21": ("exploration", "deterministic simulation with a version-skew fault: stub other-version peers restamp envelopes in flight from a grid around the minimum",
            "Every run whose current data carries a stamped interpreter version is rejected with the unsupported-version error and the previous data returned iff the version precedes the minimum by an independent semver comparison; empty current data is never rejected for its version.",
            "The weakest fit: the verdict depends on one envelope field; the simulator contributes realistic envelopes and interaction with stored data."),
    "C22": ("exploration", "deterministic simulation with per-peer limit knobs for whole histories plus per-run boundary configurations (size-1, size, size+1, 0, 2x, max) against an unlimited twin",
            "Hard mode rejects with the matching size error and returns previous data iff a size exceeds its limit; soft mode raises exactly the exceeded flags and is otherwise identical (decoded) to the unlimited twin run.",
            "Twin comparison is per run; soft-limited peers also run whole histories under their knobs."),
    "C01": ("fault_enumeration", "deterministic simulation with a Byzantine participant, a corrupting transport, mutated scripts, malformed call results and boundary-valued service results against history-produced previous data: tamper catalog, wholesale re-attribution with structural mutation, byte corruption; crash, abort and heap monitors on every invocation and on the other public entry points",
            "Every interpreter invocation of every sampled history must return (no panic, no worker death, no watchdog kill) and stay within peak heap <= 64*(input bytes)+16 MiB; to_human_readable_data, parse and beautify are called on everything that crosses the wire under the same oracle.",
            "Known findings F7 (non-JSON raw value) and F15 (non-UTF-8 CID passing rkyv validation) are classified by panic location / message. Random-text fuzzing of the parser is not this family's job and is not claimed."),
    "C14": ("fault_enumeration", "deterministic simulation with a Byzantine participant applying a tamper catalog (single ops and pairs) to data it legitimately holds, re-signing only its own result set; must-reject oracle, untampered-twin positional comparison and a whole-history content-id backstop",
            "Ops that alter values, content ids, tetraplets, argument hashes, signatures or the particle id of another peer's results must be rejected with the previous data returned; for ops that pass verification the receiver's output is compared position by position with a twin run on the untampered message; no honest peer's data may ever attribute to an honest peer a content id that peer did not produce.",
            "Catalog-based: covers the listed op kinds, not arbitrary forgeries; canon results are covered by the backstop and signature ops only."),
    "C15": ("fault_enumeration", "deterministic simulation with two equivocation faults - lost durable writes (store rollback) that make an honest-code peer sign diverging sets, and a sender that rewrites one of its own results and re-signs; independent per-peer multiset comparison of previous and current data",
            "If some peer's signed result multisets in previous and current data are incomparable the run must be rejected in preparation with the previous data returned; otherwise the merged data keeps for every other peer the signature that came with its larger set and that signature verifies over the merged data's multiset.",
            "Equivocation arises only when the rolled-back peer continues on a diverging input; counted in evidence (c15_equivocations_rejected)."),
    "C11": ("exploration", "deterministic simulation: cross-peer, cross-time comparison of every canonical value handed to a service, plus first-execution content check on the designated peer",
            "All calls anywhere in a history that take the same canon instance (canon name + enclosing iterator values) as an argument must see the same value; when a canon is first executed at its designated peer its value list must equal the stream values that peer knew, ordered by (generation, position).",
            "Canon instances are identified through rule U (iterators passed as arguments); the content check applies to single-instance streams fed by calls only."),
    "C13": ("exploration", "deterministic simulation of shape-restricted scripts: append phase from several peers, local canon as observation point, probing fold (optionally recursive), drained to quiescence",
            "The local canon holds exactly the appends replayed or performed before it (no duplicate, none missing); the fold never visits a value twice or a value that is not in the stream; at quiescence of lossless histories every stream value in the folding peer's data has been visited exactly once.",
            "Known finding F16 (recursive stream cursor skips replayed values with small generation numbers) is classified by its probe. The STREAM_MAX_SIZE boundary is exercised by one history in 331 (n x m appends around 1023/1024: canon length below the limit, stream-size error at it)."),
    "C16": ("exploration", "deterministic simulation against an independent sequential reference evaluator R of the fragment",
            "Every call request issued by any peer in any sampled history of a fragment script must be a call R makes, with the same peer, service, function and argument values.",
            "R (sim/src/refmodel.rs, ~400 lines, no code shared with /repo) is trusted for the fragment; inclusion only, as the property states."),
    "C17": ("exploration", "deterministic simulation against the reference evaluator's provenance tracking, plus a store/embedded-origin oracle for whole canon-stream arguments",
            "The tetraplets of every argument of every request equal R's expectation: init peer with empty service/function for literals and built-ins; producing peer/service/function plus the exact lens text for scalars, lens paths, ap-derived values and fold iterators, wherever the value was produced and however it reached the caller.",
            "Whole canon-stream arguments are checked without R (one tetraplet per element; an element with an empty lens is the whole result of the call its tetraplet names, at the addressed peer; the (values, tetraplets) sequence equals a canon result in the returned data's CID stores). Canon maps, .length, :error:/%last_error% are excluded (DESIGN.md C17)."),
    "C18": ("exploration", "deterministic simulation of paired histories: the same failing instruction caught by xor (probe reads :error:) and left uncaught in a surfacing context, plus a succeeding-left variant",
            "The (error_code, message) seen in the xor right branch equals the (ret_code, error_message) of the run in which the same failure is not caught; the right branch never runs when the left branch succeeds; failures that are uncatchable when uncaught are never caught.",
            "Inside folds only the first iteration is compared (an uncaught failure stops the fold there)."),
}

NA = {
    "C23": "pure function of a script text (parser totality and scoping): no schedule, fault, clock or multi-party history for a simulator to own; input generation alone would not be this technique (DESIGN.md 5)",
    "C24": "pure function of (JSON value, lens path): nothing to schedule or inject (DESIGN.md 5)",
    "C25": "pure function of (value, content id): nothing to schedule or inject; incidentally exercised by C03/C14 (DESIGN.md 5)",
    "C26": "pure function of a JSON value: nothing to schedule or inject (DESIGN.md 5)",
    "C27": "pure function of encoded bytes (round-trip of encodings): nothing to schedule or inject; incidentally exercised at every seam (DESIGN.md 5)",
    "C28": "pure function of a script (beautifier output): nothing to schedule or inject (DESIGN.md 5)",
}
PENDING = "check not built yet in this session (planned in DESIGN.md 4); not claimed until its oracle runs clean on the unchanged tree"

def main():
    allp = [json.loads(l)["id"] for l in open("/verif/properties.jsonl")]
    checks = []
    for pid in allp:
        if pid in CLAIMED:
            level, tech, text, note = CLAIMED[pid]
            checks.append({
                "property_id": pid,
                "quick_cmd": f"./check {pid} quick",
                "thorough_cmd": f"./check {pid} thorough",
                "evidence_file": f"/verif/evidence/{pid}.json",
                "replay_cmd_template": "./check replay {path}",
                "engine": "sim",
                "level_claimed": {"category": level, "text": text, "design_ref": f"DESIGN.md section 4 ({pid})"},
                "level_note": note,
                "technique": tech,
            })
    na = []
    for pid in allp:
        if pid in CLAIMED:
            continue
        na.append({"property_id": pid, "reason": NA.get(pid, PENDING)})
    hooks_commits = subprocess.run(["git", "-C", "/repo", "log", "--format=%H", "--grep=^verif hook"], capture_output=True, text=True).stdout.split()
    m = {
        "version": 1,
        "setup_cmd": "./check setup",
        "hooks": {
            "guard": "cargo feature verif_probes (air-log-targets, air-trace-handler, aquavm-air)",
            "enable": "the /verif/sim crate depends on /repo/air by path with features check_signatures, gen_signatures, verif_probes",
            "baseline_off_cmd": "cd /repo && cargo test --workspace --no-fail-fast --offline",
            "source_commits": hooks_commits,
            "add_only": True,
        },
        "engines": [{"name": "sim", "path": "/verif/sim", "serves_properties": sorted(CLAIMED.keys()),
                     "kind_free_text": "deterministic discrete-event simulator of a 2-5 peer AquaVM network (real interpreter, stub host/store/network/services), seeded scheduler and fault injector, explicit-event replay and delta-debugging minimiser"}],
        "checks": checks,
        "not_applicable": na,
        "notes": "Known findings are listed in /verif/known_findings.json (read-only at run time). VERIF_SEED selects the batch; VERIF_BUDGET_S / VERIF_HISTS override budgets.",
    }
    json.dump(m, open("/verif/MANIFEST.json", "w"), indent=1)
    print("claimed:", sorted(CLAIMED.keys()))

main()
